#!/usr/bin/env python3
"""Rewrites the 'fixed' list of known_findings.json with the current commit hashes of the fix commits in /repo."""
import json, subprocess
FIXED = [
 ("C13", "a search that ran to its end releases its message ID", "a search read to the end through an adapter (every Ldap::search(), every EntriesOnly/PagedResults stream, one ID per page) never released its message ID: signatures C13.ids|id-reserved/search()/completed, C13.ids|id-reserved/stream-EntriesOnly/read-to-end. (A first repair released the ID in the driver on SearchResultDone; the MUX lane then showed that a stream finished early could scrub the ID after it had been re-allocated, so the repair was redone on the caller's side.)"),
 ("C13", "abandon releases the message ID of the abandoned operation", "abandon of an in-flight single operation released the Abandon request's own ID but not the abandoned operation's ID: signature C13.ids|id-reserved/single/in-flight"),
 ("C10", "direct SearchStream enters Done", "direct SearchStream stayed Active after the final Ok(None); state() reported Active and a further next() panicked (search.rs unwrap on None): signatures C10.state|state/Direct/after-end and C10.panic|panic/client/src/search.rs/called `Option::unwrap()` on a `None` value"),
 ("C02", "search options set on a handle are discarded", "search options given with with_search_options() before a non-Search operation stayed on the handle and were applied to a later Search: signature C02.op|search/search-options-differ"),
 ("C02", "refused for an empty value set consumes", "an Add or Modify refused with AddNoValues left the controls / timeout / search options of that call on the handle; the next operation was sent with them: signatures C02.modifiers|<op>/controls-from-an-earlier-call"),
 ("C12", "whose caller has already given up is not sent", "an operation that timed out while its request was still queued behind a driver blocked in a write to a slow peer left a routing entry for good when the server did not answer it (the scrub was handled before the request was sent): signatures C12.e|resultmap/single/timed-out, C12.e|searchmap/<stream>/errored; found when the TIME family learnt to stall the peer"),
 ("C16", "PagedResults forgets the result of a finished page", "a paged search finished before its end returned the stored result of the first page (with its paging control and cookie) from finish() instead of the synthetic code 88: signature C16.d|final-result-carries-paging-control"),
 ("C11", "overrunning its complete parent", "a frame whose inner element overran its (complete) parent was never rejected: the decoder answered 'need more' for ever and every later reply was stuck behind it: signatures C11.c|wedged-until-the-server-closed/<class>"),
 ("C11", "bound the nesting depth", "about 15 000 nested SEQUENCE headers (70 KB) overflowed the 2 MiB stack of the task driving the connection and aborted the process: signature C11.process|process-killed-by-signal-6"),
 ("C11", "malformed LDAPMessage envelope", "the codec panicked in the driver on an empty envelope, a missing protocolOp or a message ID that is not a primitive INTEGER: signatures C11.a|driver-panic/src/protocol.rs/element and .../message id"),
 ("C11", "malformed control list", "parse_controls() panicked in the driver on malformed response controls: signatures C11.a|driver-panic/src/controls_impl.rs/*"),
 ("C11", "responses for a search ID", "the driver panicked on an unexpected operation under a search ID and on a malformed SearchResultDone body: signatures C11.a|driver-panic/src/conn.rs/unrecognized op id, C11.a|driver-panic/src/result.rs/*, C11.a|driver-panic/src/search.rs/referrals"),
 ("C11", "must be a universal SEQUENCE", "an application- or context-class element numbered 16 was accepted as message envelope: signature C11.d|not-rejected/outer-not-sequence"),
 ("C17", "hanging when the server closes during StartTLS", "with_settings() never returned when the server closed the connection after reading the StartTLS request (also met by the C18 lane): signatures C17.process|process-stall, C18.process|process-stall"),
 ("C17", "unmatched response does not end the StartTLS exchange", "with_settings() never returned when the server sent a message with an unmatched ID (e.g. a Notice of Disconnection, message ID 0) instead of or before the StartTLS response: the single-exchange driver turn ended with the reply sender of the StartTLS request still registered (pointed out by two sub-agents of the sixth round, reproduced by ESTABTLS once its peer could send such a notice): signature C17.process|process-stall with StartTlsResp NoticeThenClose"),
 ("C18", "without a host connects to localhost", "ldap:/// and ldaps:/// panicked ('unexpected None from url.host_str()'): signatures C18.panic|ldap/host-absent/.../panic"),
 ("C03", "does not fit 32 bits is not truncated", "a result code that does not fit 32 bits (ENUMERATED of five or more significant octets, e.g. 0x1_0000_0000) was truncated with `as u32`: the caller saw rc=0, success() / non_error() accepted it: signature C03.helpers|code-beyond-32-bits-reads-as-success"),
 ("C17", "does not fit 32 bits is not truncated", "the same truncation made with_settings() accept a StartTLS response carrying such a code as success and return a usable handle: signatures C17.b|ok-although-establishment-must-fail/CodeWide/*"),
 ("C18", "IPv6 literal host is a usable TLS server name", "built with the tls-rustls backend, ldaps://[::1] and ldap://[::1] + StartTLS failed with a DNS name error before the handshake, whatever the verification settings (the bracketed host string was handed to ServerName::try_from): signatures C18.connect|ldaps/ipv6/*/failed, C18.tls|ldaps/ipv6/*/ldaps-did-not-open-with-tls, C18.connect|ldap/ipv6/*/starttls/failed (rustls-backend build of the ESTABURL lane; the ESTABTLS lane met it as C17.ok|failed-although-everything-is-in-order/*/no-verify/wrong-name)"),
 ("C18", "ldapi URL with a port is rejected", "ldapi://<path>:3 was accepted and the port ignored: signature C18.reject|ldapi/with-port/accepted"),
]
def h(g):
    return subprocess.run(["git","-C","/repo","log","--format=%h","-1","--grep="+g],capture_output=True,text=True).stdout.strip()
p='/verif/known_findings.json'
k=json.load(open(p))
k['fixed']=[]
for prop,g,text in FIXED:
    c=h(g)
    assert c, g
    k['fixed'].append(f"fixed: property={prop} {c} {text}")
json.dump(k,open(p,'w'),indent=2)
print(len(k['fixed']),'fixed entries')
