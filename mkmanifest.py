#!/usr/bin/env python3
"""Regenerates MANIFEST.json from the table below (kept next to the checks so they stay in step)."""
import json, subprocess

TECH = "deterministic simulation with fault injection"
NA = {
 "C07": "pure function of a tag tree / byte string: no schedule, clock, fault or I/O for a simulator to own; its stream-facing clause (prefix => need more, trailing bytes untouched) is decided under C06",
 "C08": "parse_filter is a pure string -> tag function; nothing in it depends on an interleaving, a clock or a fault",
 "C09": "ldap_escape / dn_escape / ldap_unescape are pure string functions",
 "C15": "SearchEntry::construct is a pure function of one already-received entry",
 "C19": "control and exop codecs are pure value <-> bytes functions",
 "C20": "get_url_params is a pure function of a parsed URL",
}
NOTE = "sampling, not proof; tokio primitives trusted; thread preemption represented by the H3 yield point only; the transport is an ordered reliable byte stream until it fails"
CHECKS = {
 "C01": ("exploration", "seeded search over schedules, read/write segmentations, reply orders and unsolicited traffic (family MUX); every value a caller receives is compared with a reference model of the server plan, so a misrouted, reordered, invented or lost response is a violation", "6 C01", "seeded schedule search, reference-model oracle over the recorded history"),
 "C10": ("exploration", "seeded call sequences over next/finish/state on direct, EntriesOnly and search() streams against generated item sequences (family STREAM); every returned value and state is compared call by call with an executable model of the documented stream state machine; a panic in a stream call is a violation; error episodes (search abandoned through the stream's handle, a failing adapter of the caller's own) exercise the Error state", "6 C10", "seeded history search against an executable reference model of the stream state machine"),
 "C13": ("exploration", "seeded histories of every operation lifecycle with barriers (family LEAK); at each quiescent checkpoint the simulator snapshots the message-ID table and both routing maps (hooks H2/H4) and requires them empty; abandon clauses checked on the wire and on the abandoned caller", "6 C13", "seeded history search with invariants at simulator-detected quiescent points"),
 "C02": ("exploration", "seeded SEQ scenarios put every operation kind with generated arguments and every combination of one-shot modifiers on one handle (plus MUX scenarios for concurrent handles); the scripted server decodes each request with the harness's own strict RFC 4511 decoder and the result is compared with a request model built from the call arguments and a reference model of the handle's modifier state; one script in 120 carries an element of 64 KiB - 1 MiB; lane PAGED applies the request model to every page request of a paged search", "6 C02", "seeded history search; independent strict decoder at the simulated peer plus modifier-state reference model"),
 "C03": ("exploration", "seeded SEQ scenarios answer every operation with generated results (all codes, UTF-8 strings, referrals, controls in every presence combination, extended name/value, random legal length forms on every TLV); the value the caller receives is compared field by field with the response model; success()/non_error()/equal() are evaluated on the returned value against the documented table; MUX scenarios repeat the comparison under concurrency", "6 C03", "seeded history search; response reference model at the simulated peer"),
 "C06": ("exploration", "per seeded response burst every two-chunk split point, one-byte delivery, frame-aligned +-1, random chunking and read caps; later chunks arrive one simulated millisecond later, so a message surfaced before its last byte or bytes eaten from the next message show up as an early return, a wrong value or a hang", "6 C06", "seeded partition sweep of the response byte stream on the simulated network"),
 "C11": ("exploration", "seeded HOSTILE scenarios splice one hostile item (random bytes, bit flips, every single-field mutation of a valid frame, malformed controls and result bodies, nesting up to 200 000 levels) into the response stream while operations are pending; the driver may not panic, the worker process may not die (each run on a 2 MiB stack inside a supervised child), every pending call must be released in the instant the announced bytes have arrived (not a simulated second later when the server closes), and non-envelope input must end drive() with an error", "6 C11", "seeded fault injection at the byte level with process supervision"),
 "C14": ("exploration", "differential simulation (sampled, reported as exploration): every seeded script over the whole LdapConn / EntryStream surface runs once through Ldap / SearchStream and once through the synchronous facade (hook H5) against the same scripted server on the same kind of paused-clock runtime; decoded wire transcripts, returned values, last_id and virtual completion times must agree up to the point where the connection is compromised (after that the order in which driver and caller notice the loss is schedule-dependent and only the outcome class - failed / refused locally / value - of single operations, search() and the waiting next() is compared); scripts include searches the server never finishes, ended by a timeout or by the server hanging up", "6 C14", "differential simulation of the two API surfaces against one scripted peer"),
 "C16": ("exploration", "seeded PAGED scenarios run searches through the PagedResults adapter (alone, before or behind EntriesOnly) against a paging server model; entries returned are compared with the concatenation of all pages, every request the server decodes with the first request and with the cookie chain the server handed out, the final result with the last page's result minus the paging control; caller-supplied paging controls must be refused; lane PAGEDFAULT cuts the connection at every frame boundary of a paged search and requires: entries are a prefix of the result set exactly once and in order, the end is reported only after the last page, no result from finish() carries a paging control", "6 C16", "seeded history search against a paging reference model at the simulated peer"),
 "C17": ("exploration", "seeded establishment scripts through the real with_settings (async and sync) over kernel loopback sockets and real TLS (OpenSSL via native-tls) against a scripted adversarial peer with a CA generated at start-up: every StartTLS answer class, handshake refused / garbage / silent, untrusted or wrong-name certificate under every verification setting, cleartext reply injected after the StartTLS response; the peer records everything it reads in cleartext; Ok is accepted only after a completed acceptable handshake, and the injected reply may never answer the protected bind. Weaker than the simulated lanes: kernel scheduling and TCP segmentation are real, only the peer and the clock are simulated; the oracle is safety-only and timers are armed only where the peer never answers", "6 C17", "scripted adversarial peer and simulated clock around the real establishment code (fault injection at the protocol level)"),
 "C18": ("exploration", "seeded URL x settings combinations through the real with_settings (async on a paused clock, sync where no timer is involved) against harness-owned loopback listeners and Unix sockets: which endpoint is reached or which error class is returned is compared with the statement (default ports 389/636, missing host = localhost, percent-decoded ldapi path, stream type must match the scheme, timeout bounds StartTLS / TLS establishment against a stalling peer); any panic is a violation. Same limits as C17", "6 C18", "scripted endpoints and simulated clock around the real establishment code"),
 "C04": ("fault_enumeration", "per seeded exchange a fault-free reference run fixes the byte lengths and the decision trace; then EOF / reset at every response byte boundary, write error / server close at every request byte boundary, every flush, an undecodable frame before every response frame, unbind and handle drop at every step; each run is checked for termination of every call and of drive(), no invented values, survival of fully delivered replies (exactly, for read-side faults), immediate failure of later operations, and transport close on unbind / last drop; worker processes are supervised so that an in-poll spin or crash is caught. Lane PAGEDFAULT cuts paged searches at every response frame boundary. Lane REALIO repeats the termination clauses on the transports the simulator replaces by its in-memory pipe (kernel TCP, Unix sockets, TLS and StartTLS through native-tls; async and sync API) against a scripted peer thread: unbind / last drop must be seen as end of stream by the peer, peer close / reset / garbage must release every waiting call and drive() - weaker level there: real kernel and thread timing inside a case, real-time guards that only expire on a violation", "6 C04", "fault enumeration over every byte boundary of seeded exchanges, replaying the reference schedule up to the fault"),
 "C12": ("exploration", "seeded TIME scenarios with replies and search items before / at / after deadlines on a simulated clock; every call's value and virtual completion time is compared with a timing model computed from the recorded delivery times (ties are either-outcome); late replies must reach nobody; tables must be clean at quiescent checkpoints", "6 C12", "seeded schedule and timing search on a simulated clock with a timing reference model"),
 "C05": ("exploration", "two engines. (1) ldapsim: seeded IDS scenarios position the ID counter at the upper end with arbitrary IDs in use and move it to just below IDs of searches that are still outstanding; server-side check of range / pre-seeded / still-outstanding IDs on every request, table snapshots (hook H4) around every allocation for the wrap-around rule; H3 yield makes wire order differ from allocation order; MUX runs are checked server-side as a by-product. (2) ldap3-threads: 2-4 scheduler-controlled threads allocate IDs through cloned handles with the table's mutex under the scheduler (hook H6), seeded random and PCT schedules, counter at the wrap-around point with pre-seeded IDs; duplicates, out-of-range and in-use IDs are assertion failures with a persisted schedule", "6 C05", "seeded schedule and history search with inline invariants at the scripted server and at allocation snapshots"),
}
PLANNED = []

def main():
    commits = subprocess.run(["git","-C","/repo","log","--format=%h %s"],capture_output=True,text=True).stdout.splitlines()
    hooks = [c.split()[0] for c in commits if c.split(" ",1)[1].startswith("verif hook")]
    checks = []
    for pid,(cat,text,ref,tech) in sorted(CHECKS.items()):
        checks.append({
            "property_id": pid,
            "quick_cmd": f"./check {pid} quick",
            "thorough_cmd": f"./check {pid} thorough",
            "evidence_file": f"/verif/evidence/{pid}.json",
            "replay_cmd_template": "./check replay {path}",
            "engine": "ldapsim",
            "level_claimed": {"category": cat, "text": text, "design_ref": f"DESIGN.md section {ref}"},
            "level_note": NOTE,
            "technique": f"{TECH}: {tech}",
        })
    na = [{"property_id":k,"reason":v} for k,v in sorted(NA.items())]
    na += [{"property_id":p,"reason":"check not built yet in this revision (planned, DESIGN.md section 12)"} for p in PLANNED if p not in CHECKS]
    m = {
        "version": 1,
        "setup_cmd": "cd /verif && ./check build",
        "hooks": {
            "guard": "--cfg ldap3_verif",
            "enable": "RUSTFLAGS='--cfg ldap3_verif --cfg tokio_unstable' (set by /verif/check and /verif/sim/.cargo/config.toml); the simulator depends on /repo by path, so every build is from the working tree. The thread-level harness /verif/threads additionally sets --cfg ldap3_verif_shuttle (hook H6 swaps the ID table's mutex for the thread scheduler's) and builds /repo/src through a shadow manifest that adds the scheduler crate, so /repo's own manifest and lock file stay untouched",
            "baseline_off_cmd": "cd /repo && cargo test --workspace --no-fail-fast --offline",
            "source_commits": list(reversed(hooks)),
            "add_only": True,
        },
        "engines": [{"name":"ldap3-threads","path":"/verif/threads","serves_properties":["C05"],"kind_free_text":"thread-level deterministic simulation (shuttle seeded random and PCT schedulers, persisted replayable schedules) of the message ID allocator across cloned handles"},{"name":"ldapsim","path":"/verif/sim","serves_properties":sorted(CHECKS),"kind_free_text":"deterministic simulator: own executor on a paused, seeded current-thread tokio runtime without I/O driver; in-memory transport with fault injection; (lanes ESTABURL / ESTABTLS / REALIO instead run the real establishment and transport code over kernel loopback, Unix sockets and OpenSSL against scripted peer threads); scripted LDAP server with an independent BER codec; reference-model oracles over recorded histories; supervised worker processes; delta-debugging minimiser; replay files"}],
        "checks": checks,
        "not_applicable": na,
        "notes": "see DESIGN.md; known findings and fixed defects: known_findings.json",
    }
    json.dump(m, open("/verif/MANIFEST.json","w"), indent=1)
    print("wrote MANIFEST.json:", len(checks), "checks;", len(na), "not claimed")

main()
