#!/bin/bash
# Applies every /verif/mutants/*.patch (or the ones named on the command line) to /repo's working
# tree, runs the quick check of the property named in the patch header at reduced scale, expects
# exit 1, and reverts. /repo must be clean before and is clean after.
cd /verif || exit 2
if [ -n "$(git -C /repo status --porcelain --untracked-files=no)" ]; then echo "/repo is not clean"; exit 2; fi
trap 'git -C /repo checkout -- . 2>/dev/null' EXIT
export VERIF_SCALE=${VERIF_SCALE:-0.2}
export VERIF_REPLAY_DIR=/tmp/sens-replays.$$ VERIF_EVIDENCE_DIR=/tmp/sens-evidence.$$
pats=("$@"); [ ${#pats[@]} -eq 0 ] && pats=(mutants/*.patch mutants/benign/*.patch)
ok=0; miss=0
for p in "${pats[@]}"; do
  prop=$(sed -n 's/^# property: //p' "$p" | head -1)
  if ! git -C /repo apply "$PWD/$p" 2>/dev/null && ! git -C /repo apply -C1 --recount "$PWD/$p" 2>/dev/null && ! (cd /repo && patch -s -p1 -F3 --no-backup-if-mismatch -r - < "/verif/$p" >/dev/null 2>&1); then git -C /repo checkout -- .; echo "SKIP   $p (does not apply)"; continue; fi
  out=$(./check "$prop" quick 2>&1); rc=$?
  git -C /repo checkout -- .
  case "$p" in
    *benign*)
      # a change under which the property still holds: the check must stay quiet
      if [ $rc -eq 0 ]; then ok=$((ok+1)); echo "QUIET  $p [$prop] (benign change, no alarm)";
      else miss=$((miss+1)); echo "FALSE-ALARM $p [$prop] rc=$rc $(echo "$out" | grep -m1 '^violation' | cut -c1-150)"; fi ;;
    *)
      if [ $rc -eq 1 ]; then ok=$((ok+1)); echo "CAUGHT $p [$prop] $(echo "$out" | grep -m1 '^violation' | cut -c1-150)";
      else miss=$((miss+1)); echo "MISSED $p [$prop] rc=$rc $(echo "$out" | tail -1 | cut -c1-150)"; fi ;;
  esac
done
rm -rf "$VERIF_REPLAY_DIR" "$VERIF_EVIDENCE_DIR"
echo "caught=$ok missed=$miss"
[ $miss -eq 0 ]
