//! Batch execution: supervised worker processes, violation reports, replay files, evidence.

use crate::lanes::{self, Lane};
use crate::minimize;
use crate::oracle::Violation;
use crate::runner::{self, RunCfg, RunResult};
use crate::scenario::Scenario;
use crate::world::{Sched, Stats};
use serde::{Deserialize, Serialize};
use std::collections::{BTreeMap, BTreeSet};
use std::io::{BufRead, BufReader, Write};
use std::process::{Command, Stdio};
use std::sync::mpsc;
use std::time::{Duration, Instant};

pub const VERIF_ROOT: &str = "/verif";

#[derive(Clone, Debug, Serialize, Deserialize)]
pub struct CfgRec {
    pub tokio_seed: u64,
    pub watchdog_ms: u64,
    pub step_cap: u64,
    pub alloc_snap: bool,
    #[serde(default)]
    pub next_after_end: bool,
    pub record_writes: bool,
    pub diverge_seed: Option<u64>,
    #[serde(default)]
    pub stack_kib: Option<usize>,
}

impl CfgRec {
    pub fn from(c: &RunCfg) -> CfgRec {
        CfgRec {
            tokio_seed: c.tokio_seed,
            watchdog_ms: c.watchdog_ms,
            step_cap: c.step_cap,
            alloc_snap: c.alloc_snap,
            next_after_end: c.next_after_end,
            record_writes: c.record_writes,
            diverge_seed: c.diverge_seed,
            stack_kib: c.stack_kib,
        }
    }
    pub fn to(&self) -> RunCfg {
        RunCfg {
            tokio_seed: self.tokio_seed,
            watchdog_ms: self.watchdog_ms,
            step_cap: self.step_cap,
            alloc_snap: self.alloc_snap,
            next_after_end: self.next_after_end,
            record_writes: self.record_writes,
            diverge_seed: self.diverge_seed,
            stack_kib: self.stack_kib,
        }
    }
}

#[derive(Clone, Debug, Serialize, Deserialize)]
pub struct Replay {
    pub property: String,
    pub clause: String,
    pub signature: String,
    pub detail: String,
    pub family: String,
    pub verif_seed: u64,
    pub index: u64,
    #[serde(default)]
    pub case: usize,
    /// "run" (scenario + trace) or "process" (whole-process crash/stall: re-run by seed in a child)
    pub kind: String,
    pub scenario: Option<Scenario>,
    pub trace: Vec<u32>,
    pub cfg: Option<CfgRec>,
    pub hist_hash: String,
    pub minimised: bool,
    pub history: Vec<String>,
}

#[derive(Clone, Debug, Default, Serialize, Deserialize)]
pub struct Summary {
    pub runs: u64,
    pub nontrivial: u64,
    pub shapes: Vec<u64>,
    pub sched_hashes: u64,
    pub abs_states: Vec<u64>,
    pub stats: Stats,
    pub sim_ms: u64,
    pub determinism_checked: u64,
    pub determinism_mismatches: u64,
    pub violations: BTreeMap<String, u64>,
    pub samples: Vec<serde_json::Value>,
    pub wall_s: f64,
    pub first_index: u64,
    pub last_index: u64,
}

#[derive(Clone, Debug, Serialize, Deserialize)]
pub struct VReport {
    pub violation: Violation,
    pub replay: String,
    pub index: u64,
}

fn out_line(s: &str) {
    let stdout = std::io::stdout();
    let mut l = stdout.lock();
    let _ = l.write_all(s.as_bytes());
    let _ = l.write_all(b"\n");
    let _ = l.flush();
}

pub fn clone_cfg(c: &RunCfg) -> RunCfg {
    CfgRec::from(c).to()
}

pub fn replay_dir() -> String {
    std::env::var("VERIF_REPLAY_DIR").unwrap_or_else(|_| format!("{VERIF_ROOT}/replays"))
}

pub fn history_lines(rr: &RunResult) -> Vec<String> {
    rr.hist.iter().map(|e| format!("#{} t={}ms {:?}", e.seq, e.t_ms, e.kind)).collect()
}

pub fn write_replay(r: &Replay) -> String {
    let dir = replay_dir();
    let _ = std::fs::create_dir_all(&dir);
    // replay files of the rustls-backend binary are marked so that `./check replay` picks that binary
    let be = if cfg!(feature = "rustls-backend") { ".rustls" } else { "" };
    let path = if r.case > 0 {
        format!("{}/{}-{}-{}.{}{be}.json", dir, r.property, r.family, r.index, r.case)
    } else {
        format!("{}/{}-{}-{}{be}.json", dir, r.property, r.family, r.index)
    };
    let _ = std::fs::write(&path, serde_json::to_string_pretty(r).unwrap());
    path
}

/// Worker: runs indices `shard, shard+of, ...` below `count`.
pub fn worker(lane: &Lane, verif_seed: u64, shard: u64, of: u64, count: u64, start: u64) -> i32 {
    let t0 = Instant::now();
    let mut sum = Summary::default();
    let mut shapes: BTreeSet<u64> = BTreeSet::new();
    let mut scheds: BTreeSet<u64> = BTreeSet::new();
    let mut abs: BTreeSet<u64> = BTreeSet::new();
    let mut reported: BTreeMap<String, u32> = BTreeMap::new();
    let mut index = start + shard;
    sum.first_index = index;
    while index < count {
        out_line(&format!("S {index}"));
        let cases = lanes::cases(lane, verif_seed, index);
        for (case_ix, case) in cases.iter().enumerate() {
            if case_ix > 0 {
                out_line(&format!("S {index}.{case_ix}"));
            }
            let rr = case.run();
            let sc = &case.sc;
            // replays of a recorded trace are complete: they must not leave the trace when the fault fires
            let cfg_replay = RunCfg { diverge_seed: None, ..clone_cfg(&case.cfg) };
            let cfg = &cfg_replay;
            sum.runs += 1;
            sum.last_index = index;
            sum.sim_ms += rr.end_ms;
            sum.stats.merge(&rr.stats);
            scheds.insert(rr.sched_hash);
            abs.extend(rr.abs_states.iter().copied());
            let nt = (lane.nontrivial)(sc, &rr);
            if nt {
                sum.nontrivial += 1;
                shapes.insert(lanes::shape_hash(&rr));
                if sum.samples.len() < 2 && shard == 0 {
                    sum.samples.push(serde_json::json!({
                        "index": index,
                        "case": case_ix,
                        "case_label": &case.label,
                        "scenario": sc,
                        "decision_trace_len": rr.trace.len(),
                        "decision_trace_head": rr.trace.iter().take(40).collect::<Vec<_>>(),
                        "history": history_lines(&rr).into_iter().filter(|l| !l.contains("NetDeliver")).take(60).collect::<Vec<_>>(),
                    }));
                }
            }
            if index % 101 == 0 && case_ix % 37 == 0 {
                sum.determinism_checked += 1;
                let rr2 = case.run();
                if rr2.hist_hash != rr.hist_hash {
                    sum.determinism_mismatches += 1;
                    out_line(&format!("D {index}"));
                }
            }
            let vs = (lane.check)(sc, &rr);
            if !vs.is_empty() {
                let mut seen_keys = BTreeSet::new();
                for v in vs {
                    let key = v.key();
                    if !seen_keys.insert(key.clone()) {
                        continue;
                    }
                    *sum.violations.entry(key.clone()).or_insert(0) += 1;
                    let n = reported.entry(key.clone()).or_insert(0);
                    if *n >= 1 {
                        continue;
                    }
                    *n += 1;
                    // minimise and write a replay file
                    let (msc, mtrace, mrr, minimised) = if lane.runner.is_some() {
                        // establishment cases are single calls: nothing to minimise
                        (sc.clone(), vec![], case.run(), false)
                    } else {
                        // a panic inside the minimiser (an oracle meeting a script no generator writes) must not
                        // cost the report: fall back to the run as found
                        match std::panic::catch_unwind(std::panic::AssertUnwindSafe(|| minimize::minimize(lane, sc, cfg, &rr, &key))) {
                            Ok(x) => x,
                            Err(_) => {
                                let again = runner::run(sc, Sched::from_trace(rr.trace.clone(), None), cfg);
                                (sc.clone(), rr.trace.clone(), again, false)
                            }
                        }
                    };
                    let mv = (lane.check)(&msc, &mrr).into_iter().find(|x| x.key() == key).unwrap_or(v.clone());
                    let rep = Replay {
                        property: mv.property.clone(),
                        clause: mv.clause.clone(),
                        signature: mv.signature.clone(),
                        detail: mv.detail.clone(),
                        family: lane.family.to_string(),
                        verif_seed,
                        index,
                        case: case_ix,
                        kind: "run".into(),
                        scenario: Some(msc),
                        trace: mtrace,
                        cfg: Some(CfgRec::from(cfg)),
                        hist_hash: format!("{:016x}", mrr.hist_hash),
                        minimised,
                        history: history_lines(&mrr),
                    };
                    let path = write_replay(&rep);
                    out_line(&format!("V {}", serde_json::to_string(&VReport { violation: mv, replay: path, index }).unwrap()));
                }
            }
        }
        index += of;
    }
    sum.shapes = shapes.into_iter().collect();
    sum.sched_hashes = scheds.len() as u64;
    sum.abs_states = abs.into_iter().collect();
    sum.wall_s = t0.elapsed().as_secs_f64();
    out_line(&format!("R {}", serde_json::to_string(&sum).unwrap()));
    0
}

/// Re-execute a replay file. Returns the violations that recur with the same key.
pub fn replay_file(path: &str) -> Result<(Replay, Vec<Violation>, RunResult), String> {
    let txt = std::fs::read_to_string(path).map_err(|e| format!("cannot read {path}: {e}"))?;
    let rep: Replay = serde_json::from_str(&txt).map_err(|e| format!("cannot parse {path}: {e}"))?;
    let lane = lanes::lanes()
        .into_iter()
        .find(|l| l.prop == rep.property && l.family == rep.family)
        .ok_or_else(|| format!("no lane {}/{}", rep.property, rep.family))?;
    let sc = rep.scenario.clone().ok_or("replay file has no scenario")?;
    let mut cfg = rep.cfg.clone().ok_or("replay file has no cfg")?.to();
    cfg.diverge_seed = None;
    let rr = match lane.runner {
        Some(f) => f(&sc, &cfg),
        None => runner::run(&sc, Sched::from_trace(rep.trace.clone(), None), &cfg),
    };
    let key = format!("{}|{}", rep.clause, rep.signature);
    let vs: Vec<Violation> = (lane.check)(&sc, &rr).into_iter().filter(|v| v.key() == key).collect();
    Ok((rep, vs, rr))
}

// ------------------------------------------------------------------------------------------
// Parent / supervisor
// ------------------------------------------------------------------------------------------

#[derive(Clone, Debug, Serialize, Deserialize)]
pub struct KnownFinding {
    pub property: String,
    pub clause: String,
    pub signature: String,
    pub description: String,
    #[serde(default)]
    pub repro: String,
}

#[derive(Clone, Debug, Default, Serialize, Deserialize)]
pub struct KnownFile {
    pub findings: Vec<KnownFinding>,
    #[serde(default)]
    pub fixed: Vec<String>,
}

pub fn load_known() -> KnownFile {
    let p = format!("{VERIF_ROOT}/known_findings.json");
    match std::fs::read_to_string(&p) {
        Ok(t) => serde_json::from_str(&t).unwrap_or_else(|e| {
            eprintln!("harness error: cannot parse {p}: {e}");
            std::process::exit(2)
        }),
        Err(_) => KnownFile::default(),
    }
}

enum Msg {
    Line(usize, String),
    Eof(usize),
}

pub struct LaneOutcome {
    pub summary: Summary,
    pub reports: Vec<VReport>,
    pub harness_errors: Vec<String>,
}

/// Run one lane with `workers` supervised child processes.
pub fn run_lane(lane: &Lane, verif_seed: u64, count: u64, workers: u64) -> LaneOutcome {
    let exe = std::env::current_exe().expect("current_exe");
    let (tx, rx) = mpsc::channel::<Msg>();
    struct W {
        child: std::process::Child,
        last_index: Option<u64>,
        last_case: usize,
        last_activity: Instant,
        done: bool,
        got_summary: bool,
    }
    let mut ws: Vec<W> = Vec::new();
    let spawn = |shard: u64, start: u64, tx: mpsc::Sender<Msg>, slot: usize| -> std::process::Child {
        let mut child = Command::new(&exe)
            .args([
                "worker",
                "--prop",
                lane.prop,
                "--family",
                lane.family,
                "--seed",
                &verif_seed.to_string(),
                "--shard",
                &shard.to_string(),
                "--of",
                &workers.to_string(),
                "--count",
                &count.to_string(),
                "--start",
                &start.to_string(),
            ])
            .stdout(Stdio::piped())
            .stderr(Stdio::inherit())
            .spawn()
            .expect("spawn worker");
        let out = child.stdout.take().unwrap();
        std::thread::spawn(move || {
            let rd = BufReader::new(out);
            for line in rd.lines() {
                match line {
                    Ok(l) => {
                        if tx.send(Msg::Line(slot, l)).is_err() {
                            return;
                        }
                    }
                    Err(_) => break,
                }
            }
            let _ = tx.send(Msg::Eof(slot));
        });
        child
    };
    for k in 0..workers {
        let child = spawn(k, 0, tx.clone(), k as usize);
        ws.push(W { child, last_index: None, last_case: 0, last_activity: Instant::now(), done: false, got_summary: false });
    }
    let mut total = Summary::default();
    let mut shapes: BTreeSet<u64> = BTreeSet::new();
    let mut abs: BTreeSet<u64> = BTreeSet::new();
    let mut reports: Vec<VReport> = vec![];
    let mut errors: Vec<String> = vec![];
    let stall = Duration::from_secs(std::env::var("VERIF_STALL_S").ok().and_then(|s| s.parse().ok()).unwrap_or(30));
    let mut live = workers as usize;
    while live > 0 {
        match rx.recv_timeout(Duration::from_millis(500)) {
            Ok(Msg::Line(k, l)) => {
                ws[k].last_activity = Instant::now();
                if let Some(rest) = l.strip_prefix("S ") {
                    let (a, b) = rest.trim().split_once('.').unwrap_or((rest.trim(), "0"));
                    ws[k].last_index = a.parse().ok();
                    ws[k].last_case = b.parse().unwrap_or(0);
                } else if let Some(rest) = l.strip_prefix("V ") {
                    match serde_json::from_str::<VReport>(rest) {
                        Ok(r) => reports.push(r),
                        Err(e) => errors.push(format!("bad V line: {e}")),
                    }
                } else if let Some(rest) = l.strip_prefix("D ") {
                    errors.push(format!("determinism mismatch at index {rest}"));
                } else if let Some(rest) = l.strip_prefix("R ") {
                    match serde_json::from_str::<Summary>(rest) {
                        Ok(s) => {
                            ws[k].got_summary = true;
                            total.runs += s.runs;
                            total.nontrivial += s.nontrivial;
                            total.sched_hashes += s.sched_hashes;
                            total.sim_ms += s.sim_ms;
                            total.stats.merge(&s.stats);
                            total.determinism_checked += s.determinism_checked;
                            total.determinism_mismatches += s.determinism_mismatches;
                            for (kk, n) in s.violations {
                                *total.violations.entry(kk).or_insert(0) += n;
                            }
                            shapes.extend(s.shapes);
                            abs.extend(s.abs_states);
                            if total.samples.len() < 3 {
                                total.samples.extend(s.samples);
                            }
                            total.wall_s = total.wall_s.max(s.wall_s);
                        }
                        Err(e) => errors.push(format!("bad R line: {e}")),
                    }
                }
            }
            Ok(Msg::Eof(k)) => {
                if ws[k].done {
                    continue;
                }
                let status = ws[k].child.wait();
                let ok = matches!(&status, Ok(s) if s.success());
                if ok && ws[k].got_summary {
                    ws[k].done = true;
                    live -= 1;
                } else {
                    // crashed: attribute to the index in progress, confirm, continue after it
                    let idx = ws[k].last_index;
                    let why = format!("{:?}", status);
                    match idx {
                        Some(i) => {
                            reports.extend(confirm_process_failure(lane, verif_seed, i, ws[k].last_case, &format!("worker died: {why}")));
                            let shard = i % workers;
                            let child = spawn(shard, i - shard + workers, tx.clone(), k);
                            ws[k].child = child;
                            ws[k].last_activity = Instant::now();
                            ws[k].last_index = None;
                        }
                        None => {
                            errors.push(format!("worker {k} died before its first run: {why}"));
                            ws[k].done = true;
                            live -= 1;
                        }
                    }
                }
            }
            Err(mpsc::RecvTimeoutError::Timeout) => {}
            Err(mpsc::RecvTimeoutError::Disconnected) => break,
        }
        // A process-level failure costs the stall limit plus the confirmation run each time. A few confirmed ones
        // settle the verdict; what is left of the lane would only repeat them (a spinning driver stalls every case).
        let max_pf: usize = std::env::var("VERIF_MAX_PROCESS_FAILURES").ok().and_then(|s| s.parse().ok()).unwrap_or(3);
        if reports.iter().filter(|r| r.violation.clause.ends_with(".process")).count() >= max_pf {
            eprintln!("note: {}/{}: {} confirmed process-level failures, the rest of the lane is not run", lane.prop, lane.family, max_pf);
            for w in ws.iter_mut() {
                if !w.done {
                    let _ = w.child.kill();
                    let _ = w.child.wait();
                    w.done = true;
                }
            }
            break;
        }
        // stall supervision
        for k in 0..ws.len() {
            if !ws[k].done && ws[k].last_activity.elapsed() > stall {
                let _ = ws[k].child.kill();
                ws[k].last_activity = Instant::now();
                // Eof handler will pick it up as a crash
            }
        }
    }
    total.shapes = shapes.into_iter().collect();
    total.abs_states = abs.into_iter().collect();
    LaneOutcome { summary: total, reports, harness_errors: errors }
}

/// Re-run one index alone in a fresh child; if it dies or stalls again, report a violation
/// with a process-level replay file.
pub fn confirm_process_failure(lane: &Lane, verif_seed: u64, index: u64, case: usize, why: &str) -> Vec<VReport> {
    let exe = std::env::current_exe().expect("current_exe");
    let mut child = match Command::new(&exe)
        .args(["one", "--prop", lane.prop, "--family", lane.family, "--seed", &verif_seed.to_string(), "--index", &index.to_string(), "--case", &case.to_string(), "--quiet", "--report"])
        .stdout(Stdio::piped())
        .stderr(Stdio::null())
        .spawn()
    {
        Ok(c) => c,
        Err(_) => return vec![],
    };
    let t0 = Instant::now();
    let limit = Duration::from_secs(std::env::var("VERIF_CONFIRM_S").ok().and_then(|s| s.parse().ok()).unwrap_or(60));
    let status = loop {
        match child.try_wait() {
            Ok(Some(s)) => break Some(s),
            Ok(None) => {
                if t0.elapsed() > limit {
                    let _ = child.kill();
                    let _ = child.wait();
                    break None;
                }
                std::thread::sleep(Duration::from_millis(50));
            }
            Err(_) => break None,
        }
    };
    let sig = match status {
        None => "process-stall".to_string(),
        Some(s) => {
            use std::os::unix::process::ExitStatusExt;
            if let Some(sg) = s.signal() {
                format!("process-killed-by-signal-{sg}")
            } else if s.code() == Some(1) {
                // alone the case runs to completion and shows an ordinary violation, which the dead worker never
                // reported: report it (unminimised)
                let mut out = String::new();
                if let Some(mut so) = child.stdout.take() {
                    use std::io::Read;
                    let _ = so.read_to_string(&mut out);
                }
                let reps: Vec<VReport> = out.lines().filter_map(|l| l.strip_prefix("V ")).filter_map(|j| serde_json::from_str(j).ok()).collect();
                eprintln!("note: index {index} of {}/{}: the worker died ({why}); alone the case reports {} violation(s)", lane.prop, lane.family, reps.len());
                return reps;
            } else if s.code() == Some(0) {
                // ran to completion alone: the earlier death is not reproducible -> harness note only
                eprintln!("note: index {index} of {}/{} did not reproduce a process failure ({why})", lane.prop, lane.family);
                return vec![];
            } else {
                format!("process-exit-{}", s.code().unwrap_or(-1))
            }
        }
    };
    let s = lanes::seeds(verif_seed, lane.family, index);
    let _ = s;
    let sc = {
        let mut cs = lanes::cases(lane, verif_seed, index);
        let n = cs.len();
        cs.swap_remove(case.min(n - 1)).sc
    };
    let clause = format!("{}.process", lane.prop);
    let rep = Replay {
        property: lane.prop.to_string(),
        clause: clause.clone(),
        signature: sig.clone(),
        detail: format!("{why}; confirmed alone: {sig}"),
        family: lane.family.to_string(),
        verif_seed,
        index,
        case,
        kind: "process".into(),
        scenario: Some(sc),
        trace: vec![],
        cfg: None,
        hist_hash: String::new(),
        minimised: false,
        history: vec![],
    };
    let path = write_replay(&rep);
    vec![VReport { violation: Violation::new(lane.prop, &clause, sig, rep.detail.clone()), replay: path, index }]
}
