//! Independent BER layer of the harness, written from X.690 / RFC 4511 section 5.1.
//! Deliberately does not use `lber`.

use serde::{Deserialize, Serialize};

#[derive(Clone, Copy, Debug, PartialEq, Eq, Hash, PartialOrd, Ord, Serialize, Deserialize)]
pub enum Class {
    Univ = 0,
    App = 1,
    Ctx = 2,
    Priv = 3,
}

#[derive(Clone, Debug, PartialEq, Eq, Hash, PartialOrd, Ord, Serialize, Deserialize)]
pub enum Body {
    Prim(Vec<u8>),
    Cons(Vec<Tlv>),
}

#[derive(Clone, Debug, PartialEq, Eq, Hash, PartialOrd, Ord, Serialize, Deserialize)]
pub struct Tlv {
    pub class: Class,
    pub tag: u32,
    pub body: Body,
}

impl Tlv {
    pub fn prim(class: Class, tag: u32, v: impl Into<Vec<u8>>) -> Tlv {
        Tlv { class, tag, body: Body::Prim(v.into()) }
    }
    pub fn cons(class: Class, tag: u32, v: Vec<Tlv>) -> Tlv {
        Tlv { class, tag, body: Body::Cons(v) }
    }
    pub fn seq(v: Vec<Tlv>) -> Tlv {
        Tlv::cons(Class::Univ, 16, v)
    }
    pub fn set(v: Vec<Tlv>) -> Tlv {
        Tlv::cons(Class::Univ, 17, v)
    }
    pub fn octets(v: impl Into<Vec<u8>>) -> Tlv {
        Tlv::prim(Class::Univ, 4, v)
    }
    pub fn int(v: i64) -> Tlv {
        Tlv::prim(Class::Univ, 2, int_content(v))
    }
    pub fn enumerated(v: i64) -> Tlv {
        Tlv::prim(Class::Univ, 10, int_content(v))
    }
    pub fn boolean(b: bool) -> Tlv {
        Tlv::prim(Class::Univ, 1, vec![if b { 0xFF } else { 0 }])
    }
    pub fn is(&self, class: Class, tag: u32) -> bool {
        self.class == class && self.tag == tag
    }
    pub fn as_prim(&self) -> Option<&[u8]> {
        match &self.body {
            Body::Prim(v) => Some(v),
            Body::Cons(_) => None,
        }
    }
    pub fn as_cons(&self) -> Option<&[Tlv]> {
        match &self.body {
            Body::Cons(v) => Some(v),
            Body::Prim(_) => None,
        }
    }
}

/// Shortest two's-complement content octets.
pub fn int_content(v: i64) -> Vec<u8> {
    let b = v.to_be_bytes();
    let mut start = 0;
    while start < 7 {
        let cur = b[start];
        let next_msb = b[start + 1] & 0x80;
        if (cur == 0x00 && next_msb == 0) || (cur == 0xFF && next_msb != 0) {
            start += 1;
        } else {
            break;
        }
    }
    b[start..].to_vec()
}

/// Decode two's-complement content octets; `None` if empty or longer than 8.
pub fn int_value(c: &[u8]) -> Option<i64> {
    if c.is_empty() || c.len() > 8 {
        return None;
    }
    let mut v: i64 = if c[0] & 0x80 != 0 { -1 } else { 0 };
    for &b in c {
        v = (v << 8) | b as i64;
    }
    Some(v)
}

pub fn int_is_minimal(c: &[u8]) -> bool {
    if c.len() < 2 {
        return !c.is_empty();
    }
    !((c[0] == 0 && c[1] & 0x80 == 0) || (c[0] == 0xFF && c[1] & 0x80 != 0))
}

#[derive(Clone, Debug, PartialEq, Eq)]
pub enum BerErr {
    /// More bytes are needed to complete the element.
    Short,
    Indefinite,
    HighTag,
    LenTooLong,
    /// Inner element overruns its container.
    Overrun,
    Other(&'static str),
}

#[derive(Clone, Copy, Debug, Default)]
pub struct DecStats {
    /// number of TLVs whose length was not encoded in the minimal number of octets
    pub nonminimal_len: u32,
    pub max_depth: u32,
}

/// Decode exactly one TLV from the front of `b`. Returns the TLV and the number of bytes used.
pub fn decode(b: &[u8], stats: &mut DecStats) -> Result<(Tlv, usize), BerErr> {
    decode_at(b, 1, stats, true)
}

fn header(b: &[u8], stats: &mut DecStats) -> Result<(Class, bool, u32, usize, usize), BerErr> {
    if b.is_empty() {
        return Err(BerErr::Short);
    }
    let id = b[0];
    let class = match id >> 6 {
        0 => Class::Univ,
        1 => Class::App,
        2 => Class::Ctx,
        _ => Class::Priv,
    };
    let cons = id & 0x20 != 0;
    let tag = (id & 0x1F) as u32;
    if tag == 0x1F {
        return Err(BerErr::HighTag);
    }
    if b.len() < 2 {
        return Err(BerErr::Short);
    }
    let l0 = b[1];
    if l0 < 0x80 {
        return Ok((class, cons, tag, 2, l0 as usize));
    }
    if l0 == 0x80 {
        return Err(BerErr::Indefinite);
    }
    let n = (l0 & 0x7F) as usize;
    if l0 == 0xFF {
        return Err(BerErr::Other("reserved length octet"));
    }
    if b.len() < 2 + n {
        return Err(BerErr::Short);
    }
    let mut len: usize = 0;
    let mut sig = 0;
    for &x in &b[2..2 + n] {
        if len == 0 && x == 0 {
            continue;
        }
        sig += 1;
        if sig > 4 {
            return Err(BerErr::LenTooLong);
        }
        len = (len << 8) | x as usize;
    }
    let minimal = if len < 128 { false } else { sig == n };
    if !minimal {
        stats.nonminimal_len += 1;
    }
    Ok((class, cons, tag, 2 + n, len))
}

fn decode_at(b: &[u8], depth: u32, stats: &mut DecStats, top: bool) -> Result<(Tlv, usize), BerErr> {
    if depth > stats.max_depth {
        stats.max_depth = depth;
    }
    if depth > 2000 {
        return Err(BerErr::Other("too deep"));
    }
    let (class, cons, tag, hl, len) = header(b, stats)?;
    if b.len() < hl + len {
        return Err(if top { BerErr::Short } else { BerErr::Overrun });
    }
    let content = &b[hl..hl + len];
    let body = if cons {
        let mut v = Vec::new();
        let mut rest = content;
        while !rest.is_empty() {
            let (t, used) = match decode_at(rest, depth + 1, stats, false) {
                Ok(x) => x,
                Err(BerErr::Short) => return Err(BerErr::Overrun),
                Err(e) => return Err(e),
            };
            v.push(t);
            rest = &rest[used..];
        }
        Body::Cons(v)
    } else {
        Body::Prim(content.to_vec())
    };
    Ok((Tlv { class, tag, body }, hl + len))
}

/// Length-form chooser: given the content length, return how many *extra* length octets
/// (beyond the minimal form) to use. 0 = minimal.
pub trait LenForm {
    fn extra(&mut self, len: usize) -> usize;
}

pub struct Minimal;
impl LenForm for Minimal {
    fn extra(&mut self, _len: usize) -> usize {
        0
    }
}

impl<F: FnMut(usize) -> usize> LenForm for F {
    fn extra(&mut self, len: usize) -> usize {
        self(len)
    }
}

pub fn write_len(out: &mut Vec<u8>, len: usize, extra: usize) {
    if len < 128 && extra == 0 {
        out.push(len as u8);
        return;
    }
    let mut sig = Vec::new();
    let mut l = len;
    while l > 0 {
        sig.push((l & 0xFF) as u8);
        l >>= 8;
    }
    if sig.is_empty() {
        sig.push(0);
    }
    let extra = if len < 128 { extra.max(1) - 1 } else { extra };
    let n = sig.len() + extra;
    let n = n.min(126);
    out.push(0x80 | n as u8);
    for _ in 0..(n - sig.len()) {
        out.push(0);
    }
    for &x in sig.iter().rev() {
        out.push(x);
    }
}

pub fn encode_with(t: &Tlv, lf: &mut dyn LenForm) -> Vec<u8> {
    let mut out = Vec::new();
    enc(t, lf, &mut out);
    out
}

pub fn encode(t: &Tlv) -> Vec<u8> {
    encode_with(t, &mut Minimal)
}

fn enc(t: &Tlv, lf: &mut dyn LenForm, out: &mut Vec<u8>) {
    assert!(t.tag < 31, "harness encoder: low tag numbers only");
    let cons = matches!(t.body, Body::Cons(_));
    out.push(((t.class as u8) << 6) | if cons { 0x20 } else { 0 } | t.tag as u8);
    match &t.body {
        Body::Prim(v) => {
            let e = lf.extra(v.len());
            write_len(out, v.len(), e);
            out.extend_from_slice(v);
        }
        Body::Cons(items) => {
            let mut inner = Vec::new();
            for i in items {
                enc(i, lf, &mut inner);
            }
            let e = lf.extra(inner.len());
            write_len(out, inner.len(), e);
            out.extend_from_slice(&inner);
        }
    }
}

/// Convert an `lber` structure (as handed to callers by ldap3) into the harness's TLV.
pub fn from_lber(t: &lber::structure::StructureTag) -> Tlv {
    use lber::common::TagClass;
    let class = match t.class {
        TagClass::Universal => Class::Univ,
        TagClass::Application => Class::App,
        TagClass::Context => Class::Ctx,
        TagClass::Private => Class::Priv,
    };
    let body = match &t.payload {
        lber::structure::PL::P(v) => Body::Prim(v.clone()),
        lber::structure::PL::C(v) => Body::Cons(v.iter().map(from_lber).collect()),
    };
    Tlv { class, tag: t.id as u32, body }
}

#[cfg(test)]
mod tests {
    use super::*;

    #[test]
    fn ints() {
        for v in [0i64, 1, -1, 127, 128, -128, -129, 255, 256, 32767, 32768, i64::MAX, i64::MIN, 2147483647] {
            let c = int_content(v);
            assert!(int_is_minimal(&c), "{v} {:?}", c);
            assert_eq!(int_value(&c), Some(v));
        }
        assert_eq!(int_content(128), vec![0, 0x80]);
        assert_eq!(int_content(-129), vec![0xFF, 0x7F]);
    }

    #[test]
    fn roundtrip_lenforms() {
        let t = Tlv::seq(vec![Tlv::int(5), Tlv::octets(vec![7u8; 200]), Tlv::cons(Class::Ctx, 3, vec![Tlv::boolean(true)])]);
        let mut st = DecStats::default();
        let e = encode(&t);
        assert_eq!(decode(&e, &mut st).unwrap(), (t.clone(), e.len()));
        assert_eq!(st.nonminimal_len, 0);
        let mut k = 0usize;
        let mut f = |_l: usize| {
            k += 1;
            k % 4
        };
        let e2 = encode_with(&t, &mut f);
        let mut st = DecStats::default();
        assert_eq!(decode(&e2, &mut st).unwrap(), (t, e2.len()));
        assert!(st.nonminimal_len > 0);
        for cut in 0..e2.len() {
            assert_eq!(decode(&e2[..cut], &mut DecStats::default()), Err(BerErr::Short));
        }
    }
}
