//! Client actors: interpret a `ClientScript` against a real `ldap3::Ldap` handle and record
//! invoke/return events with canonicalised values.

use crate::ber;
use crate::exec::BarrierFut;
use crate::scenario::{Adapter, ClientScript, IdRef, ModSpec, Mods, OpSpec, SearchSpec, Step};
use crate::world::{self, CtlC, ErrC, EvKind, ItemC, ResC, Ret};
use ldap3::adapters::{Adapter as LAdapter, EntriesOnly, PagedResults};
use ldap3::controls::{Control, RawControl};
use ldap3::exop::Exop;
use ldap3::result::{LdapError, LdapResult};
use ldap3::{DerefAliases, Ldap, Mod, ResultEntry, Scope, SearchOptions, SearchStream, StreamState};
use std::collections::HashSet;
use std::future::Future;
use std::pin::Pin;
use std::task::{Context, Poll};
use std::time::Duration;

pub type Stream = SearchStream<'static, String, Vec<String>>;

pub fn ctl_c(c: &Control) -> CtlC {
    CtlC { known: c.0.map(|k| format!("{:?}", k)), oid: c.1.ctype.clone(), crit: c.1.crit, val: c.1.val.clone() }
}

pub fn res_c(r: &LdapResult) -> ResC {
    ResC { rc: r.rc, matched: r.matched.clone(), text: r.text.clone(), refs: r.refs.clone(), ctrls: r.ctrls.iter().map(ctl_c).collect() }
}

pub fn item_c(e: &ResultEntry) -> ItemC {
    ItemC { tlv: ber::from_lber(&e.0), ctrls: e.1.iter().map(ctl_c).collect() }
}

pub fn err_c(e: &LdapError) -> ErrC {
    match e {
        LdapError::Io { source } => ErrC::Io(format!("{:?}", source.kind())),
        LdapError::OpSend { .. } => ErrC::OpSend,
        LdapError::ResultRecv { .. } => ErrC::ResultRecv,
        LdapError::IdScrubSend { .. } => ErrC::IdScrubSend,
        LdapError::MiscSend { .. } => ErrC::MiscSend,
        LdapError::Timeout { .. } => ErrC::Timeout,
        LdapError::FilterParsing => ErrC::FilterParsing,
        LdapError::EndOfStream => ErrC::EndOfStream,
        LdapError::AdapterInit(s) => ErrC::AdapterInit(s.clone()),
        LdapError::AddNoValues => ErrC::AddNoValues,
        LdapError::LdapResult { result } => ErrC::LdapResult(res_c(result)),
        other => ErrC::Other(format!("{}", other)),
    }
}

fn raw_controls(cs: &[crate::msg::Ctl]) -> Vec<RawControl> {
    cs.iter()
        .map(|c| RawControl { ctype: String::from_utf8_lossy(&c.oid).into_owned(), crit: c.crit.unwrap_or(false), val: c.val.clone() })
        .collect()
}

pub fn apply_mods(ldap: &mut Ldap, m: &Mods) {
    if let Some(cs) = &m.controls {
        ldap.with_controls(raw_controls(cs));
    }
    if let Some(t) = m.timeout_ms {
        ldap.with_timeout(if t == u64::MAX { Duration::MAX } else { Duration::from_millis(t) });
    }
    if let Some(o) = &m.opts {
        let d = match o.deref {
            0 => DerefAliases::Never,
            1 => DerefAliases::Searching,
            2 => DerefAliases::Finding,
            _ => DerefAliases::Always,
        };
        ldap.with_search_options(SearchOptions::new().deref(d).typesonly(o.typesonly).timelimit(o.timelimit).sizelimit(o.sizelimit));
    }
}

pub fn scope_of(s: u8) -> Scope {
    match s {
        0 => Scope::Base,
        1 => Scope::OneLevel,
        _ => Scope::Subtree,
    }
}

fn hs(v: &[Vec<u8>]) -> HashSet<Vec<u8>> {
    v.iter().cloned().collect()
}

fn mods_of(ms: &[ModSpec]) -> Vec<Mod<Vec<u8>>> {
    ms.iter()
        .map(|m| match m {
            ModSpec::Add(a, v) => Mod::Add(a.clone(), hs(v)),
            ModSpec::Delete(a, v) => Mod::Delete(a.clone(), hs(v)),
            ModSpec::Replace(a, v) => Mod::Replace(a.clone(), hs(v)),
            ModSpec::Increment(a, v) => Mod::Increment(a.clone(), v.clone()),
        })
        .collect()
}

pub fn state_name(s: StreamState) -> String {
    format!("{:?}", s)
}

fn resolve_id(r: &IdRef) -> i32 {
    match r {
        IdRef::Raw(i) => *i,
        IdRef::Token(t) => world::with(|w| w.ids_by_token.get(t).or_else(|| w.srv_ids_by_token.get(t)).copied().unwrap_or(0)),
    }
}

/// Run one operation to completion and canonicalise its value.
pub type HelperRec = (u32, bool, bool, Option<Option<bool>>);

fn helpers_res(r: &LdapResult) -> HelperRec {
    (r.rc, r.clone().success().is_ok(), r.clone().non_error().is_ok(), None)
}

pub async fn run_op(ldap: &mut Ldap, op: &OpSpec) -> Ret {
    run_op_h(ldap, op).await.0
}

/// Run one operation; also evaluate the documented helper methods on the returned value.
pub async fn run_op_h(ldap: &mut Ldap, op: &OpSpec) -> (Ret, Option<HelperRec>) {
    match op {
        OpSpec::SimpleBind { dn, pw } => match ldap.simple_bind(dn, pw).await {
            Ok(r) => (Ret::Res(res_c(&r)), Some(helpers_res(&r))),
            Err(e) => (Ret::Err(err_c(&e)), None),
        },
        OpSpec::SaslExternal => match ldap.sasl_external_bind().await {
            Ok(r) => (Ret::Res(res_c(&r)), Some(helpers_res(&r))),
            Err(e) => (Ret::Err(err_c(&e)), None),
        },
        OpSpec::Search(s) => match ldap.search(&s.base, scope_of(s.scope), &s.filter_str, s.attrs.clone()).await {
            Ok(r) => (Ret::Search { entries: r.0.iter().map(item_c).collect(), res: res_c(&r.1) }, Some((r.1.rc, r.clone().success().is_ok(), r.clone().non_error().is_ok(), None))),
            Err(e) => (Ret::Err(err_c(&e)), None),
        },
        OpSpec::Add { dn, attrs } => {
            let a: Vec<(Vec<u8>, HashSet<Vec<u8>>)> = attrs.iter().map(|(n, v)| (n.clone(), hs(v))).collect();
            match ldap.add(dn, a).await {
                Ok(r) => (Ret::Res(res_c(&r)), Some(helpers_res(&r))),
                Err(e) => (Ret::Err(err_c(&e)), None),
            }
        }
        OpSpec::Compare { dn, attr, val } => match ldap.compare(dn, attr, val).await {
            Ok(r) => (Ret::Cmp(res_c(&r.0)), Some((r.0.rc, false, r.clone().non_error().is_ok(), Some(r.clone().equal().ok())))),
            Err(e) => (Ret::Err(err_c(&e)), None),
        },
        OpSpec::Delete { dn } => match ldap.delete(dn).await {
            Ok(r) => (Ret::Res(res_c(&r)), Some(helpers_res(&r))),
            Err(e) => (Ret::Err(err_c(&e)), None),
        },
        OpSpec::Modify { dn, mods } => match ldap.modify(dn, mods_of(mods)).await {
            Ok(r) => (Ret::Res(res_c(&r)), Some(helpers_res(&r))),
            Err(e) => (Ret::Err(err_c(&e)), None),
        },
        OpSpec::ModifyDn { dn, rdn, delete_old, new_sup } => match ldap.modifydn(dn, rdn, *delete_old, new_sup.as_deref()).await {
            Ok(r) => (Ret::Res(res_c(&r)), Some(helpers_res(&r))),
            Err(e) => (Ret::Err(err_c(&e)), None),
        },
        OpSpec::Extended { oid, val } => match ldap.extended(Exop { name: Some(oid.clone()), val: val.clone() }).await {
            Ok(r) => (Ret::Exop { name: r.0.name.clone(), val: r.0.val.clone(), res: res_c(&r.1) }, Some((r.1.rc, r.clone().success().is_ok(), r.clone().non_error().is_ok(), None))),
            Err(e) => (Ret::Err(err_c(&e)), None),
        },
        OpSpec::Abandon(r) => {
            let id = resolve_id(r);
            match ldap.abandon(id).await {
                Ok(()) => (Ret::Unit, None),
                Err(e) => (Ret::Err(err_c(&e)), None),
            }
        }
        OpSpec::Unbind => match ldap.unbind().await {
            Ok(()) => (Ret::Unit, None),
            Err(e) => (Ret::Err(err_c(&e)), None),
        },
    }
}

/// An adapter of the harness's own: hands `left` next() calls up the chain, then fails (the error of an adapter
/// must put the stream into the Error state; finish() then still has to release the search).
#[derive(Clone, Debug)]
pub struct FailAfter {
    pub left: u32,
}

pub const FAIL_AFTER_MSG: &str = "harness adapter: rejected";

#[async_trait::async_trait]
impl<'a, S, A> LAdapter<'a, S, A> for FailAfter
where
    S: AsRef<str> + Send + Sync + 'a,
    A: AsRef<[S]> + Send + Sync + 'a,
{
    async fn start(&mut self, stream: &mut SearchStream<'a, S, A>, base: &str, scope: Scope, filter: &str, attrs: A) -> ldap3::result::Result<()> {
        stream.start(base, scope, filter, attrs).await
    }

    async fn next(&mut self, stream: &mut SearchStream<'a, S, A>) -> ldap3::result::Result<Option<ResultEntry>> {
        if self.left == 0 {
            return Err(LdapError::AdapterInit(FAIL_AFTER_MSG.into()));
        }
        self.left -= 1;
        stream.next().await
    }

    async fn finish(&mut self, stream: &mut SearchStream<'a, S, A>) -> LdapResult {
        stream.finish().await
    }
}

pub async fn open_stream(ldap: &mut Ldap, s: &SearchSpec, adapter: Adapter) -> Result<Stream, LdapError> {
    let sc = scope_of(s.scope);
    match adapter {
        Adapter::Direct => ldap.streaming_search(&s.base, sc, &s.filter_str, s.attrs.clone()).await,
        Adapter::EntriesOnly => ldap.streaming_search_with(EntriesOnly::new(), &s.base, sc, &s.filter_str, s.attrs.clone()).await,
        Adapter::Paged(n) => {
            ldap.streaming_search_with(PagedResults::<String, Vec<String>>::new(n), &s.base, sc, &s.filter_str, s.attrs.clone()).await
        }
        Adapter::EntriesOnlyPaged(n) => {
            let v: Vec<Box<dyn LAdapter<'static, String, Vec<String>>>> = vec![Box::new(EntriesOnly::new()), Box::new(PagedResults::new(n))];
            ldap.streaming_search_with(v, &s.base, sc, &s.filter_str, s.attrs.clone()).await
        }
        Adapter::PagedEntriesOnly(n) => {
            let v: Vec<Box<dyn LAdapter<'static, String, Vec<String>>>> = vec![Box::new(PagedResults::new(n)), Box::new(EntriesOnly::new())];
            ldap.streaming_search_with(v, &s.base, sc, &s.filter_str, s.attrs.clone()).await
        }
        Adapter::FailAfter(n) => {
            let v: Vec<Box<dyn LAdapter<'static, String, Vec<String>>>> = vec![Box::new(FailAfter { left: n })];
            ldap.streaming_search_with(v, &s.base, sc, &s.filter_str, s.attrs.clone()).await
        }
    }
}

/// Wrapper that (a) decides whether the H3 yield point may fire for this operation,
/// (b) snapshots the ID table around the first poll (C05 white box), (c) drops the
/// operation after `cancel_after` pending polls.
pub struct Driven<F> {
    fut: Option<Pin<Box<F>>>,
    polls: u32,
    cancel_after: Option<u32>,
    client: usize,
    step: usize,
    snap: bool,
}

impl<F> Driven<F> {
    pub fn new(f: F, cancel_after: Option<u32>, client: usize, step: usize, snap: bool) -> Driven<F> {
        Driven { fut: Some(Box::pin(f)), polls: 0, cancel_after, client, step, snap }
    }
}

impl<F: Future> Future for Driven<F> {
    type Output = Option<F::Output>;
    fn poll(mut self: Pin<&mut Self>, cx: &mut Context<'_>) -> Poll<Option<F::Output>> {
        let this = self.as_mut().get_mut();
        if let Some(n) = this.cancel_after {
            if this.polls >= n {
                // cancellation: drop the operation future
                let f = this.fut.take();
                drop(f);
                world::with(|w| w.stats.bump("client.cancelled"));
                return Poll::Ready(None);
            }
        }
        let first = this.polls == 0;
        if first && this.snap {
            let t = world::with(|w| w.observer.as_ref().map(|o| o.verif_id_table()));
            if let Some((last, in_use)) = t {
                world::ev(EvKind::AllocSnap { client: this.client, step: this.step, last, in_use });
            }
        }
        // a yield at H3 is only allowed for operations that are never cancelled
        world::with(|w| w.yield_ok = this.cancel_after.is_none());
        let r = this.fut.as_mut().expect("polled after completion").as_mut().poll(cx);
        world::with(|w| w.yield_ok = false);
        if first && this.snap {
            let t = world::with(|w| w.observer.as_ref().map(|o| o.verif_id_table()));
            if let Some((last, in_use)) = t {
                world::ev(EvKind::AllocSnap { client: this.client, step: this.step, last, in_use });
            }
        }
        this.polls += 1;
        match r {
            Poll::Ready(v) => {
                this.fut = None;
                Poll::Ready(Some(v))
            }
            Poll::Pending => {
                if this.cancel_after.is_some() {
                    // a call that is going to be dropped is polled again whenever the scheduler says so, not only
                    // when something happened for it: the drop can then come before the driver has even seen the request
                    cx.waker().wake_by_ref();
                }
                Poll::Pending
            }
        }
    }
}

pub struct ClientOpts {
    /// snapshot the ID table around operation starts
    pub alloc_snap: bool,
    /// perform next() calls even after the stream reported its end (C10 only)
    pub next_after_end: bool,
}

pub async fn run_client(client: usize, script: ClientScript, ldap: Ldap, opts: ClientOpts) {
    let mut ldap = Some(ldap);
    let mut slots: Vec<Option<Stream>> = Vec::new();
    let mut ended: Vec<bool> = Vec::new();
    if script.start_delay_ms > 0 {
        tokio::time::sleep(Duration::from_millis(script.start_delay_ms)).await;
    }
    for (ix, step) in script.steps.iter().enumerate() {
        match step {
            Step::Op { token, op, mods, cancel_after_polls } => {
                let Some(l) = ldap.as_mut() else {
                    world::ev(EvKind::Return { client, step: ix, token: token.clone(), ret: Ret::Skipped, last_id: 0 });
                    continue;
                };
                apply_mods(l, mods);
                world::ev(EvKind::Invoke { client, step: ix, token: token.clone(), what: format!("{:?}", op_kind(op)) });
                let (ret, helpers) = match Driven::new(run_op_h(l, op), *cancel_after_polls, client, ix, opts.alloc_snap).await {
                    Some(r) => r,
                    None => (Ret::Cancelled, None),
                };
                if let Some((rc, success, non_error, equal)) = helpers {
                    world::ev(EvKind::Helpers { client, step: ix, rc, success, non_error, equal });
                }
                let last_id = if matches!(op, OpSpec::Search(_)) { 0 } else { l.last_id() };
                world::with(|w| {
                    if last_id != 0 {
                        w.ids_by_token.insert(token.clone(), last_id);
                    }
                    w.ev(EvKind::Return { client, step: ix, token: token.clone(), ret, last_id });
                });
            }
            Step::Open { token, slot, search, adapter, mods } => {
                let Some(l) = ldap.as_mut() else {
                    world::ev(EvKind::Return { client, step: ix, token: token.clone(), ret: Ret::Skipped, last_id: 0 });
                    continue;
                };
                apply_mods(l, mods);
                world::ev(EvKind::Invoke { client, step: ix, token: token.clone(), what: format!("open:{:?}", adapter) });
                let r = Driven::new(open_stream(l, search, *adapter), None, client, ix, opts.alloc_snap).await;
                while slots.len() <= *slot {
                    slots.push(None);
                    ended.push(false);
                }
                ended[*slot] = false;
                let (ret, last_id) = match r {
                    Some(Ok(mut s)) => {
                        let id = s.ldap_handle().last_id();
                        slots[*slot] = Some(s);
                        (Ret::Opened, id)
                    }
                    Some(Err(e)) => (Ret::Err(err_c(&e)), 0),
                    None => (Ret::Cancelled, 0),
                };
                world::with(|w| {
                    if last_id != 0 {
                        w.ids_by_token.insert(token.clone(), last_id);
                    }
                    w.ev(EvKind::Return { client, step: ix, token: token.clone(), ret, last_id });
                });
            }
            Step::OpenDropped { token, search, polls } => {
                let Some(l) = ldap.as_mut() else {
                    world::ev(EvKind::Return { client, step: ix, token: token.clone(), ret: Ret::Skipped, last_id: 0 });
                    continue;
                };
                world::ev(EvKind::Invoke { client, step: ix, token: token.clone(), what: "open-dropped".into() });
                let r = Driven::new(open_stream(l, search, Adapter::Direct), Some(*polls), client, ix, false).await;
                // a call that completed before it could be dropped leaves a stream: it is dropped unfinished
                let ret = match r {
                    Some(Ok(s)) => {
                        drop(s);
                        Ret::Opened
                    }
                    Some(Err(e)) => Ret::Err(err_c(&e)),
                    None => Ret::Cancelled,
                };
                world::ev(EvKind::Return { client, step: ix, token: token.clone(), ret, last_id: 0 });
            }
            Step::Next { slot, cancel_after_polls } => {
                let tok = format!("next@{slot}");
                let skip = !opts.next_after_end && ended.get(*slot).copied().unwrap_or(false);
                match slots.get_mut(*slot).and_then(|s| s.as_mut()).filter(|_| !skip) {
                    None => world::ev(EvKind::Return { client, step: ix, token: tok, ret: Ret::Skipped, last_id: 0 }),
                    Some(s) => {
                        world::ev(EvKind::Invoke { client, step: ix, token: tok.clone(), what: "next".into() });
                        let r = Driven::new(s.next(), *cancel_after_polls, client, ix, false).await;
                        let ret = match r {
                            Some(Ok(x)) => Ret::Item(x.as_ref().map(item_c)),
                            Some(Err(e)) => Ret::Err(err_c(&e)),
                            None => Ret::Cancelled,
                        };
                        let last_id = s.ldap_handle().last_id();
                        if matches!(ret, Ret::Item(None) | Ret::Err(_)) {
                            ended[*slot] = true;
                        }
                        world::ev(EvKind::Return { client, step: ix, token: tok, ret, last_id });
                    }
                }
            }
            Step::Finish { slot } => {
                let tok = format!("finish@{slot}");
                match slots.get_mut(*slot).and_then(|s| s.as_mut()) {
                    None => world::ev(EvKind::Return { client, step: ix, token: tok, ret: Ret::Skipped, last_id: 0 }),
                    Some(s) => {
                        world::ev(EvKind::Invoke { client, step: ix, token: tok.clone(), what: "finish".into() });
                        let r = s.finish().await;
                        let last_id = s.ldap_handle().last_id();
                        world::ev(EvKind::Return { client, step: ix, token: tok, ret: Ret::Fin(res_c(&r)), last_id });
                    }
                }
            }
            Step::State { slot } => {
                let tok = format!("state@{slot}");
                let ret = match slots.get(*slot).and_then(|s| s.as_ref()) {
                    None => Ret::Skipped,
                    Some(s) => Ret::State(state_name(s.state())),
                };
                world::ev(EvKind::Return { client, step: ix, token: tok, ret, last_id: 0 });
            }
            Step::StreamAbandon { slot } => {
                let tok = format!("abandon@{slot}");
                match slots.get_mut(*slot).and_then(|s| s.as_mut()) {
                    None => world::ev(EvKind::Return { client, step: ix, token: tok, ret: Ret::Skipped, last_id: 0 }),
                    Some(s) => {
                        let id = s.ldap_handle().last_id();
                        world::ev(EvKind::Invoke { client, step: ix, token: tok.clone(), what: "\"abandon\"".into() });
                        let ret = match s.ldap_handle().abandon(id).await {
                            Ok(()) => Ret::Unit,
                            Err(e) => Ret::Err(err_c(&e)),
                        };
                        world::ev(EvKind::Return { client, step: ix, token: tok, ret, last_id: id });
                    }
                }
            }
            Step::DropStream { slot } => {
                if let Some(s) = slots.get_mut(*slot) {
                    let x = s.take();
                    drop(x);
                }
            }
            Step::DropHandle => {
                let x = ldap.take();
                drop(x);
            }
            Step::Barrier => {
                BarrierFut::new(client).await;
            }
            Step::Sleep { ms } => {
                tokio::time::sleep(Duration::from_millis(*ms)).await;
            }
            Step::SetMods { mods } => {
                if let Some(l) = ldap.as_mut() {
                    apply_mods(l, mods);
                }
            }
            Step::SetIdCounter { last } => {
                if let Some(l) = ldap.as_ref() {
                    let (_, in_use) = l.verif_id_table();
                    l.verif_set_id_table(*last, &in_use);
                    world::ev(EvKind::Note(format!("id counter set to {last}")));
                }
            }
            Step::SetIdCounterBefore { token, back } => {
                if let Some(l) = ldap.as_ref() {
                    let id = resolve_id(&IdRef::Token(token.clone()));
                    if id > 0 {
                        let (_, in_use) = l.verif_id_table();
                        let last = (id - *back).max(0);
                        l.verif_set_id_table(last, &in_use);
                        world::ev(EvKind::Note(format!("id counter set to {last}")));
                    }
                }
            }
            Step::ProbeCert => {
                let ret = match ldap.as_mut() {
                    Some(l) => Ret::Cert(match l.get_peer_certificate().await {
                        Ok(None) => "none".into(),
                        Ok(Some(_)) => "some".into(),
                        Err(_) => "err".into(),
                    }),
                    None => Ret::Skipped,
                };
                world::ev(EvKind::Return { client, step: ix, token: "cert".into(), ret, last_id: 0 });
            }
            Step::Probe => {
                let ret = match ldap.as_mut() {
                    Some(l) => Ret::Probe { last_id: l.last_id(), closed: l.is_closed() },
                    None => Ret::Skipped,
                };
                world::ev(EvKind::Return { client, step: ix, token: "probe".into(), ret, last_id: 0 });
            }
        }
    }
    // streams and handle are dropped here, in slot order then the handle
    for s in slots.iter_mut() {
        let x = s.take();
        drop(x);
    }
    drop(ldap);
}

pub fn op_kind(op: &OpSpec) -> &'static str {
    match op {
        OpSpec::SimpleBind { .. } => "bind",
        OpSpec::SaslExternal => "saslbind",
        OpSpec::Search(_) => "search",
        OpSpec::Add { .. } => "add",
        OpSpec::Compare { .. } => "compare",
        OpSpec::Delete { .. } => "delete",
        OpSpec::Modify { .. } => "modify",
        OpSpec::ModifyDn { .. } => "moddn",
        OpSpec::Extended { .. } => "extended",
        OpSpec::Abandon(_) => "abandon",
        OpSpec::Unbind => "unbind",
    }
}
