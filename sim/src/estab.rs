//! Establishment lanes (C17, C18): the real `LdapConnAsync::with_settings` / `LdapConn::with_settings`
//! against harness-owned loopback endpoints and a scripted (possibly adversarial) peer.
//! The kernel loopback stack, mio and OpenSSL run for real here; the peer and the clock are simulated.

use crate::ber::{self, DecStats};
use crate::msg;
use crate::runner::{RunCfg, RunResult};
use crate::scenario::Scenario;
use crate::world::{Ev, EvKind, Stats};
use serde::{Deserialize, Serialize};
use std::io::{Read, Write};
use std::net::{TcpListener, TcpStream};
use std::os::unix::net::{UnixListener, UnixStream};
use std::sync::{Arc, Mutex, OnceLock};
use std::time::Duration;

pub const STARTTLS_OID: &[u8] = b"1.3.6.1.4.1.1466.20037";

#[derive(Clone, Debug, PartialEq, Serialize, Deserialize)]
pub enum HostForm {
    Ip4,
    Name,
    Ip6,
    Absent,
}

#[derive(Clone, Debug, PartialEq, Serialize, Deserialize)]
pub enum StdKind {
    None,
    Tcp,
    Unix,
    Invalid,
}

#[derive(Clone, Debug, PartialEq, Serialize, Deserialize)]
pub enum StartTlsResp {
    Success,
    Code(u32),
    /// a non-zero result code that does not fit 32 bits
    CodeWide(u64),
    /// a non-zero result code given by the content octets of its ENUMERATED (nine or more octets)
    CodeOctets(Vec<u8>),
    Garbage,
    Close,
    Silent,
    /// success, with a cleartext LDAP reply for the next message ID appended in the same write
    SuccessPlusInjected,
    /// a Notice of Disconnection (message ID 0) instead of the response, then close
    NoticeThenClose,
    /// an unsolicited notice (message ID 0) first, then the success response
    NoticeThenSuccess,
}

#[derive(Clone, Debug, PartialEq, Serialize, Deserialize)]
pub enum TlsBehaviour {
    Good,
    /// close the socket when the ClientHello arrives
    Refuse,
    /// answer the ClientHello with bytes that are not TLS
    Garbage,
    /// never answer the ClientHello
    Silent,
}

#[derive(Clone, Debug, PartialEq, Serialize, Deserialize)]
pub enum Peer {
    /// accept; nothing else (plain LDAP needs nothing from the peer to be established)
    Accept,
    /// accept and close at once
    AcceptClose,
    /// accept, read, never answer
    Stall,
    /// nothing listens
    Absent,
    /// TLS-capable scripted server
    Tls {
        starttls: StartTlsResp,
        tls: TlsBehaviour,
        /// present a certificate for "localhost" issued by a CA nobody trusts
        #[serde(default)]
        rogue: bool,
    },
}

#[derive(Clone, Debug, PartialEq, Serialize, Deserialize)]
pub struct EstabCase {
    pub lane: String, // "url" | "tls"
    pub scheme: String,
    pub host: HostForm,
    /// put the endpoint's port into the URL (otherwise the scheme's default port must be reached)
    pub explicit_port: bool,
    /// ldapi: file name of the socket inside the harness directory; `encode` = how it is percent-encoded
    pub sock_name: String,
    pub encode_all: bool,
    /// ldapi: add ":3" after the path
    pub ldapi_port: bool,
    /// ldapi: leave the path empty
    pub ldapi_empty: bool,
    /// use this literal URL instead of a constructed one (unparsable URLs)
    pub raw_url: Option<String>,
    pub starttls: bool,
    pub no_tls_verify: bool,
    /// custom connector that trusts the harness CA
    pub trust_ca: bool,
    pub conn_timeout_ms: Option<u64>,
    pub std_stream: StdKind,
    pub sync_api: bool,
    pub peer: Peer,
    /// connect with a clone of the settings object (pools and reconnect loops do)
    #[serde(default)]
    pub clone_settings: bool,
}

#[derive(Clone, Debug, Default, PartialEq, Serialize, Deserialize)]
pub struct PeerLog {
    pub accepted: u32,
    /// classification of what arrived in cleartext before the TLS handshake
    pub cleartext: String,
    pub starttls_request_seen: bool,
    /// LDAP PDUs seen in cleartext other than the StartTLS request
    pub other_cleartext_pdus: u32,
    pub handshake_completed: bool,
    pub requests_inside_tls: u32,
    pub notes: Vec<String>,
}

#[derive(Clone, Debug, Default, PartialEq, Serialize, Deserialize)]
pub struct EstabObs {
    pub url: String,
    /// "ok", "err:<class>", "panic:<msg>"
    pub outcome: String,
    pub t_ms: u64,
    /// names of the harness endpoints that received a connection
    pub reached: Vec<String>,
    pub peer: PeerLog,
    /// result of the protected bind after a successful establishment: "ok:<text>", "timeout", "err:<class>"
    pub bind: Option<String>,
    pub skipped: Option<String>,
}

// ------------------------------------------------------------------------------------------
// PKI of the harness
// ------------------------------------------------------------------------------------------

pub struct Pki {
    pub ca_pem: Vec<u8>,
    pub leaf_pem: Vec<u8>,
    pub leaf_key_pem: Vec<u8>,
    /// a leaf for "localhost" issued by a second CA that neither the custom connector nor the "system store" knows
    pub rogue_leaf_pem: Vec<u8>,
    pub rogue_leaf_key_pem: Vec<u8>,
}

fn make_cert(cn: &str, san_dns: Option<&str>, issuer: Option<(&openssl::x509::X509, &openssl::pkey::PKey<openssl::pkey::Private>)>, is_ca: bool) -> (openssl::x509::X509, openssl::pkey::PKey<openssl::pkey::Private>) {
    use openssl::asn1::Asn1Time;
    use openssl::bn::{BigNum, MsbOption};
    use openssl::ec::{EcGroup, EcKey};
    use openssl::hash::MessageDigest;
    use openssl::nid::Nid;
    use openssl::pkey::PKey;
    use openssl::x509::extension::{BasicConstraints, KeyUsage, SubjectAlternativeName};
    use openssl::x509::{X509NameBuilder, X509};
    let group = EcGroup::from_curve_name(Nid::X9_62_PRIME256V1).unwrap();
    let key = PKey::from_ec_key(EcKey::generate(&group).unwrap()).unwrap();
    let mut name = X509NameBuilder::new().unwrap();
    name.append_entry_by_text("CN", cn).unwrap();
    let name = name.build();
    let mut b = X509::builder().unwrap();
    b.set_version(2).unwrap();
    let mut serial = BigNum::new().unwrap();
    serial.rand(64, MsbOption::MAYBE_ZERO, false).unwrap();
    b.set_serial_number(&serial.to_asn1_integer().unwrap()).unwrap();
    b.set_subject_name(&name).unwrap();
    b.set_pubkey(&key).unwrap();
    b.set_not_before(&Asn1Time::days_from_now(0).unwrap()).unwrap();
    b.set_not_after(&Asn1Time::days_from_now(365).unwrap()).unwrap();
    match issuer {
        Some((ic, _)) => b.set_issuer_name(ic.subject_name()).unwrap(),
        None => b.set_issuer_name(&name).unwrap(),
    }
    if is_ca {
        b.append_extension(BasicConstraints::new().critical().ca().build().unwrap()).unwrap();
        b.append_extension(KeyUsage::new().critical().key_cert_sign().crl_sign().build().unwrap()).unwrap();
    } else {
        b.append_extension(BasicConstraints::new().build().unwrap()).unwrap();
        b.append_extension(KeyUsage::new().digital_signature().key_encipherment().build().unwrap()).unwrap();
    }
    if let Some(d) = san_dns {
        let ctx = b.x509v3_context(issuer.map(|x| x.0.as_ref()), None);
        let san = SubjectAlternativeName::new().dns(d).build(&ctx).unwrap();
        b.append_extension(san).unwrap();
    }
    match issuer {
        Some((_, ik)) => b.sign(ik, MessageDigest::sha256()).unwrap(),
        None => b.sign(&key, MessageDigest::sha256()).unwrap(),
    }
    (b.build(), key)
}

pub fn pki() -> &'static Pki {
    static P: OnceLock<Pki> = OnceLock::new();
    P.get_or_init(|| {
        let (ca, ca_key) = make_cert("ldapsim test CA", None, None, true);
        let (leaf, leaf_key) = make_cert("localhost", Some("localhost"), Some((&ca, &ca_key)), false);
        let (rca, rca_key) = make_cert("ldapsim rogue CA", None, None, true);
        let (rleaf, rleaf_key) = make_cert("localhost", Some("localhost"), Some((&rca, &rca_key)), false);
        Pki {
            ca_pem: ca.to_pem().unwrap(),
            leaf_pem: leaf.to_pem().unwrap(),
            leaf_key_pem: leaf_key.private_key_to_pem_pkcs8().unwrap(),
            rogue_leaf_pem: rleaf.to_pem().unwrap(),
            rogue_leaf_key_pem: rleaf_key.private_key_to_pem_pkcs8().unwrap(),
        }
    })
}

/// Path of the file through which this process's "system certificate store" is the harness CA.
fn system_store_path() -> String {
    format!("/tmp/ldapsim-ca-{}.pem", std::process::id())
}

/// Makes the harness CA the system trust store of this process: OpenSSL's default verify paths (native-tls's
/// default connector) and rustls-native-certs (the default rustls configuration of ldap3) both honour
/// SSL_CERT_FILE. Called once, first thing in `main`, before any thread exists; so a connection opened with
/// the library's *default* TLS configuration verifies the peer against the harness CA.
pub fn init_system_trust() {
    let path = system_store_path();
    if std::fs::write(&path, &pki().ca_pem).is_ok() {
        std::env::set_var("SSL_CERT_FILE", &path);
    }
}

pub fn drop_system_trust() {
    let _ = std::fs::remove_file(system_store_path());
}

/// Client-side TLS configuration that trusts the harness CA (and nothing else), for the backend this
/// binary was built with.
#[cfg(feature = "native-backend")]
pub fn trust_harness_ca(settings: ldap3::LdapConnSettings) -> ldap3::LdapConnSettings {
    let ca = native_tls::Certificate::from_pem(&pki().ca_pem).expect("ca");
    let conn = native_tls::TlsConnector::builder().add_root_certificate(ca).build().expect("connector");
    settings.set_connector(conn)
}

#[cfg(feature = "rustls-backend")]
pub fn trust_harness_ca(settings: ldap3::LdapConnSettings) -> ldap3::LdapConnSettings {
    let der = openssl::x509::X509::from_pem(&pki().ca_pem).expect("ca").to_der().expect("der");
    let mut store = rustls::RootCertStore::empty();
    store.add(rustls::pki_types::CertificateDer::from(der)).expect("root");
    let config = rustls::ClientConfig::builder().with_root_certificates(store).with_no_client_auth();
    settings.set_config(Arc::new(config))
}

pub const BACKEND: &str = if cfg!(feature = "rustls-backend") { "rustls" } else { "native-tls" };

// ------------------------------------------------------------------------------------------
// Scripted peer (std threads, blocking I/O with real-time safety timeouts)
// ------------------------------------------------------------------------------------------

const IO_GUARD: Duration = Duration::from_secs(5);

fn read_one_ldap_message(s: &mut TcpStream, buf: &mut Vec<u8>) -> Option<(ber::Tlv, usize)> {
    let mut tmp = [0u8; 4096];
    loop {
        let mut st = DecStats::default();
        match ber::decode(buf, &mut st) {
            Ok((t, used)) => return Some((t, used)),
            Err(ber::BerErr::Short) => {}
            Err(_) => return None,
        }
        match s.read(&mut tmp) {
            Ok(0) | Err(_) => return None,
            Ok(n) => buf.extend_from_slice(&tmp[..n]),
        }
    }
}

fn ext_response(id: i64, rc: u32) -> Vec<u8> {
    ber::encode(&msg::resp_tlv(&msg::Resp {
        id,
        op: msg::RespOp::Result { tag: 24, res: msg::ResultSpec { exop_name: Some(String::from_utf8_lossy(STARTTLS_OID).into_owned()), ..msg::ResultSpec::simple(rc, "starttls") } },
        ctrls: None,
    }))
}

fn bind_response(id: i64, text: &str) -> Vec<u8> {
    ber::encode(&msg::resp_tlv(&msg::Resp { id, op: msg::RespOp::Result { tag: 1, res: msg::ResultSpec::simple(0, text) }, ctrls: None }))
}

fn tls_peer(mut s: TcpStream, scheme_starttls: bool, starttls: StartTlsResp, tls: TlsBehaviour, rogue: bool, log: &Arc<Mutex<PeerLog>>, stop: &Arc<std::sync::atomic::AtomicBool>) {
    let _ = s.set_read_timeout(Some(IO_GUARD));
    let _ = s.set_write_timeout(Some(IO_GUARD));
    let mut buf: Vec<u8> = Vec::new();
    if scheme_starttls {
        match read_one_ldap_message(&mut s, &mut buf) {
            None => {
                log.lock().unwrap().cleartext = "no-complete-ldap-message".into();
                return;
            }
            Some((t, used)) => {
                let mut strict = vec![];
                let req = msg::decode_request(&t, &mut strict);
                let is_starttls = matches!(&req, Some(msg::Req { op: msg::ReqOp::Extended { oid, val: None }, ctrls: None, .. }) if oid == STARTTLS_OID);
                {
                    let mut l = log.lock().unwrap();
                    l.starttls_request_seen = is_starttls;
                    l.cleartext = if is_starttls { "starttls-request".into() } else { format!("other-ldap-message:{:?}", req.as_ref().map(|r| r.op.kind())) };
                    if !is_starttls {
                        l.other_cleartext_pdus += 1;
                    }
                }
                buf.drain(..used);
                let id = req.map(|r| r.id).unwrap_or(1);
                match starttls {
                    StartTlsResp::Success => {
                        let _ = s.write_all(&ext_response(id, 0));
                    }
                    StartTlsResp::SuccessPlusInjected => {
                        let mut b = ext_response(id, 0);
                        b.extend(bind_response(id + 1, "INJECTED"));
                        let _ = s.write_all(&b);
                    }
                    StartTlsResp::Code(rc) => {
                        let _ = s.write_all(&ext_response(id, rc));
                    }
                    StartTlsResp::CodeOctets(ref o) => {
                        let b = ber::encode(&msg::resp_tlv(&msg::Resp {
                            id,
                            op: msg::RespOp::Result { tag: 24, res: msg::ResultSpec { rc_octets: Some(o.clone()), exop_name: Some(String::from_utf8_lossy(STARTTLS_OID).into_owned()), ..msg::ResultSpec::simple(1, "starttls") } },
                            ctrls: None,
                        }));
                        let _ = s.write_all(&b);
                    }
                    StartTlsResp::CodeWide(w) => {
                        let b = ber::encode(&msg::resp_tlv(&msg::Resp {
                            id,
                            op: msg::RespOp::Result { tag: 24, res: msg::ResultSpec { rc_wide: Some(w), exop_name: Some(String::from_utf8_lossy(STARTTLS_OID).into_owned()), ..msg::ResultSpec::simple(1, "starttls") } },
                            ctrls: None,
                        }));
                        let _ = s.write_all(&b);
                    }
                    StartTlsResp::NoticeThenClose => {
                        let _ = s.write_all(&ext_response(0, 52));
                        return;
                    }
                    StartTlsResp::NoticeThenSuccess => {
                        let _ = s.write_all(&ext_response(0, 80));
                        let _ = s.flush();
                        let _ = s.write_all(&ext_response(id, 0));
                    }
                    StartTlsResp::Garbage => {
                        let _ = s.write_all(&[0x30, 0x03, 0xff, 0xff, 0xff, 0x15, 0x03]);
                    }
                    StartTlsResp::Close => return,
                    StartTlsResp::Silent => {
                        while !stop.load(std::sync::atomic::Ordering::SeqCst) {
                            std::thread::sleep(Duration::from_millis(2));
                        }
                        return;
                    }
                }
            }
        }
    }
    // What follows in cleartext must be a TLS handshake record, never an LDAP PDU.
    let mut peek = [0u8; 1];
    let first = if !buf.is_empty() {
        Some(buf[0])
    } else {
        match s.peek(&mut peek) {
            Ok(1) => Some(peek[0]),
            _ => None,
        }
    };
    match first {
        None => {
            log.lock().unwrap().notes.push("nothing-after-starttls".into());
            return;
        }
        Some(0x16) => {}
        Some(0x30) => {
            let mut l = log.lock().unwrap();
            l.other_cleartext_pdus += 1;
            l.notes.push("ldap-pdu-in-cleartext-where-tls-was-due".into());
            return;
        }
        Some(x) => {
            log.lock().unwrap().notes.push(format!("unexpected-byte-{x:#x}-where-tls-was-due"));
            return;
        }
    }
    if !buf.is_empty() {
        // bytes of the ClientHello already read together with the StartTLS request cannot be pushed back
        log.lock().unwrap().notes.push("clienthello-pipelined-with-starttls".into());
        return;
    }
    match tls {
        TlsBehaviour::Refuse => return,
        TlsBehaviour::Garbage => {
            let _ = s.write_all(b"HTTP/1.1 400 Bad Request\r\n\r\n");
            return;
        }
        TlsBehaviour::Silent => {
            while !stop.load(std::sync::atomic::Ordering::SeqCst) {
                std::thread::sleep(Duration::from_millis(2));
            }
            return;
        }
        TlsBehaviour::Good => {}
    }
    let p = pki();
    let (cert, key) = if rogue { (&p.rogue_leaf_pem, &p.rogue_leaf_key_pem) } else { (&p.leaf_pem, &p.leaf_key_pem) };
    let ident = match native_tls::Identity::from_pkcs8(cert, key) {
        Ok(i) => i,
        Err(e) => {
            log.lock().unwrap().notes.push(format!("identity: {e}"));
            return;
        }
    };
    let acceptor = match native_tls::TlsAcceptor::new(ident) {
        Ok(a) => a,
        Err(e) => {
            log.lock().unwrap().notes.push(format!("acceptor: {e}"));
            return;
        }
    };
    let mut t = match acceptor.accept(s) {
        Ok(t) => t,
        Err(e) => {
            log.lock().unwrap().notes.push(format!("handshake-failed: {}", crate::oracle::trunc(&format!("{e}"), 60)));
            return;
        }
    };
    log.lock().unwrap().handshake_completed = true;
    // inside TLS: answer binds unless the script injected a cleartext answer earlier
    let mut inbuf: Vec<u8> = Vec::new();
    let mut tmp = [0u8; 4096];
    loop {
        let mut st = DecStats::default();
        match ber::decode(&inbuf, &mut st) {
            Ok((tlv, used)) => {
                inbuf.drain(..used);
                let mut strict = vec![];
                if let Some(req) = msg::decode_request(&tlv, &mut strict) {
                    log.lock().unwrap().requests_inside_tls += 1;
                    if let msg::ReqOp::BindSimple { .. } = req.op {
                        if starttls != StartTlsResp::SuccessPlusInjected {
                            let _ = t.write_all(&bind_response(req.id, "INSIDE-TLS"));
                        } else {
                            // no answer to the bind, only an unsolicited notice (message ID 0): anything the client
                            // kept from before the handshake would now be decoded ahead of it
                            let _ = t.write_all(&ext_response(0, 52));
                        }
                    }
                }
                continue;
            }
            Err(ber::BerErr::Short) => {}
            Err(_) => return,
        }
        match t.read(&mut tmp) {
            Ok(0) | Err(_) => return,
            Ok(n) => inbuf.extend_from_slice(&tmp[..n]),
        }
    }
}

struct Endpoint {
    name: String,
    accepted: Arc<Mutex<u32>>,
    stop: Arc<std::sync::atomic::AtomicBool>,
    handle: Option<std::thread::JoinHandle<()>>,
    port: u16,
}

fn serve_tcp(name: &str, l: TcpListener, peer: Peer, scheme_starttls: bool, log: Arc<Mutex<PeerLog>>) -> Endpoint {
    let port = l.local_addr().map(|a| a.port()).unwrap_or(0);
    let accepted = Arc::new(Mutex::new(0u32));
    let stop = Arc::new(std::sync::atomic::AtomicBool::new(false));
    let (a2, s2) = (accepted.clone(), stop.clone());
    let _ = l.set_nonblocking(true);
    let handle = std::thread::spawn(move || {
        let mut held: Vec<TcpStream> = vec![];
        let mut workers = vec![];
        while !s2.load(std::sync::atomic::Ordering::SeqCst) {
            match l.accept() {
                Ok((s, _)) => {
                    *a2.lock().unwrap() += 1;
                    log.lock().unwrap().accepted += 1;
                    let _ = s.set_nonblocking(false);
                    match &peer {
                        Peer::Accept | Peer::Stall => held.push(s),
                        Peer::AcceptClose | Peer::Absent => drop(s),
                        Peer::Tls { starttls, tls, rogue } => {
                            let (st, tl, rg, lg, sp) = (starttls.clone(), tls.clone(), *rogue, log.clone(), s2.clone());
                            workers.push(std::thread::spawn(move || tls_peer(s, scheme_starttls, st, tl, rg, &lg, &sp)));
                        }
                    }
                }
                Err(_) => std::thread::sleep(Duration::from_millis(1)),
            }
        }
        // whatever completed its handshake before the stop is still in the accept queue: serve it too
        while let Ok((s, _)) = l.accept() {
            *a2.lock().unwrap() += 1;
            log.lock().unwrap().accepted += 1;
            let _ = s.set_nonblocking(false);
            if let Peer::Tls { starttls, tls, rogue } = &peer {
                tls_peer(s, scheme_starttls, starttls.clone(), tls.clone(), *rogue, &log, &s2);
            }
        }
        drop(held);
        for w in workers {
            let _ = w.join();
        }
    });
    Endpoint { name: name.to_string(), accepted, stop, handle: Some(handle), port }
}

fn serve_unix(name: &str, l: UnixListener) -> Endpoint {
    let accepted = Arc::new(Mutex::new(0u32));
    let stop = Arc::new(std::sync::atomic::AtomicBool::new(false));
    let (a2, s2) = (accepted.clone(), stop.clone());
    let _ = l.set_nonblocking(true);
    let handle = std::thread::spawn(move || {
        let mut held: Vec<UnixStream> = vec![];
        while !s2.load(std::sync::atomic::Ordering::SeqCst) {
            match l.accept() {
                Ok((s, _)) => {
                    *a2.lock().unwrap() += 1;
                    held.push(s);
                }
                Err(_) => std::thread::sleep(Duration::from_millis(1)),
            }
        }
        while let Ok((s, _)) = l.accept() {
            *a2.lock().unwrap() += 1;
            drop(s);
        }
    });
    Endpoint { name: name.to_string(), accepted, stop, handle: Some(handle), port: 0 }
}

impl Endpoint {
    fn finish(&mut self) -> u32 {
        self.stop.store(true, std::sync::atomic::Ordering::SeqCst);
        if let Some(h) = self.handle.take() {
            let _ = h.join();
        }
        *self.accepted.lock().unwrap()
    }
}

fn pct(s: &str, all: bool) -> String {
    let mut o = String::new();
    for b in s.bytes() {
        if !all && (b.is_ascii_alphanumeric() || b == b'.' || b == b'-' || b == b'_') {
            o.push(b as char);
        } else {
            o.push_str(&format!("%{:02X}", b));
        }
    }
    o
}

/// Serialise default-port cases across worker processes.
struct PortLock(std::fs::File);
impl PortLock {
    fn take() -> Option<PortLock> {
        let f = std::fs::OpenOptions::new().create(true).write(true).truncate(false).open("/tmp/ldapsim-default-ports.lock").ok()?;
        use std::os::unix::io::AsRawFd;
        let rc = unsafe { libc::flock(f.as_raw_fd(), libc::LOCK_EX) };
        if rc == 0 {
            Some(PortLock(f))
        } else {
            None
        }
    }
}
impl Drop for PortLock {
    fn drop(&mut self) {
        use std::os::unix::io::AsRawFd;
        unsafe { libc::flock(self.0.as_raw_fd(), libc::LOCK_UN) };
    }
}

fn err_class(e: &ldap3::LdapError) -> String {
    use ldap3::LdapError::*;
    match e {
        EmptyUnixPath => "EmptyUnixPath".into(),
        PortInUnixPath => "PortInUnixPath".into(),
        MismatchedStreamType => "MismatchedStreamType".into(),
        // which of these a peer's close shows up as depends on how far the kernel got (it shows with the
        // rustls backend, whose I/O errors are not wrapped); no oracle distinguishes them
        Io { source } if matches!(source.kind(), std::io::ErrorKind::UnexpectedEof | std::io::ErrorKind::ConnectionReset | std::io::ErrorKind::BrokenPipe | std::io::ErrorKind::ConnectionAborted) => "Io:PeerClosed".into(),
        Io { source } => format!("Io:{:?}", source.kind()),
        Timeout { .. } => "Timeout".into(),
        UrlParsing { .. } => "UrlParsing".into(),
        UnknownScheme(_) => "UnknownScheme".into(),
        #[cfg(feature = "native-backend")]
        NativeTLS { .. } => "NativeTLS".into(),
        #[cfg(feature = "rustls-backend")]
        Rustls { .. } => "Rustls".into(),
        #[cfg(feature = "rustls-backend")]
        DNSName { .. } => "DNSName".into(),
        LdapResult { result } => format!("LdapResult:{}", result.rc),
        ResultRecv { .. } => "ResultRecv".into(),
        OpSend { .. } => "OpSend".into(),
        other => format!("Other:{}", crate::oracle::trunc(&format!("{other}"), 40)),
    }
}

pub fn run(sc: &Scenario, cfg: &RunCfg) -> RunResult {
    let case: EstabCase = serde_json::from_str(&sc.note).expect("estab case");
    let mut obs = run_case(&case, cfg.tokio_seed);
    // ephemeral ports and scratch directory names are not part of the observation; nor are the peer's diagnostic
    // notes that depend on how far its thread got before the case ended (no oracle reads them)
    obs.url = normalise_url(&obs.url);
    obs.peer.notes.retain(|n| n != "nothing-after-starttls" && n != "clienthello-pipelined-with-starttls");
    let mut hist = vec![];
    let js = serde_json::to_string(&obs).unwrap();
    hist.push(Ev { seq: 1, t_ms: obs.t_ms, kind: EvKind::Note(format!("estab {js}")) });
    let mut stats = Stats::default();
    stats.bump(&format!("estab.outcome.{}", obs.outcome.split(':').next().unwrap_or("")));
    if obs.skipped.is_some() {
        stats.bump("estab.skipped");
    }
    let hist_hash = crate::world::history_hash(&hist);
    RunResult {
        verdict: crate::exec::Verdict::Done,
        hist,
        trace: vec![],
        stats,
        steps: 0,
        sched_hash: 0,
        hist_hash,
        end_ms: obs.t_ms,
        c2s: vec![],
        s2c: vec![],
        requests: vec![],
        abs_states: Default::default(),
    }
}

fn normalise_url(u: &str) -> String {
    // replace ":<digits>" ports (except the literal ":3" of the ldapi cases) and the scratch directory
    let mut out = String::new();
    let b: Vec<char> = u.chars().collect();
    let mut i = 0;
    while i < b.len() {
        if b[i] == ':' && i + 1 < b.len() && b[i + 1].is_ascii_digit() {
            let mut j = i + 1;
            while j < b.len() && b[j].is_ascii_digit() {
                j += 1;
            }
            if j - i > 3 {
                out.push_str(":PORT");
                i = j;
                continue;
            }
        }
        out.push(b[i]);
        i += 1;
    }
    // scratch directory, plain or percent-encoded
    let re_plain = "ldapsim-estab-";
    if let Some(p) = out.find(re_plain) {
        let rest = &out[p..];
        let end = rest.find("%2F").or_else(|| rest.find('/')).unwrap_or(rest.len());
        out.replace_range(p..p + end, "SCRATCH");
    } else if let Some(p) = out.find("%6C%64%61%70%73%69%6D") {
        let rest = &out[p..];
        let end = rest.find("%2F").unwrap_or(rest.len());
        out.replace_range(p..p + end, "SCRATCH");
    }
    out
}

pub fn run_case(case: &EstabCase, tokio_seed: u64) -> EstabObs {
    crate::exec::install_panic_hook();
    let mut obs = EstabObs::default();
    let log = Arc::new(Mutex::new(PeerLog::default()));
    let dir = format!("/tmp/ldapsim-estab-{}-{:?}", std::process::id(), std::thread::current().id()).replace(['(', ')'], "");
    let _ = std::fs::remove_dir_all(&dir);
    let _ = std::fs::create_dir_all(&dir);
    let mut endpoints: Vec<Endpoint> = vec![];
    let mut _lock = None;
    let is_tcp_scheme = case.scheme == "ldap" || case.scheme == "ldaps";
    let scheme_starttls = case.scheme == "ldap" && case.starttls;
    // --- endpoints ---------------------------------------------------------------------------
    let mut url = String::new();
    let mut skip: Option<String> = None;
    if let Some(raw) = &case.raw_url {
        url = raw.clone();
    } else if case.scheme == "ldapi" {
        let path = format!("{dir}/{}", case.sock_name);
        if case.peer != Peer::Absent {
            match UnixListener::bind(&path) {
                Ok(l) => endpoints.push(serve_unix("unix", l)),
                Err(e) => skip = Some(format!("cannot bind unix socket: {e}")),
            }
        }
        let enc = if case.ldapi_empty { String::new() } else { pct(&path, case.encode_all) };
        url = format!("ldapi://{enc}{}", if case.ldapi_port { ":3" } else { "" });
        if !case.ldapi_port && !case.ldapi_empty && !case.encode_all {
            // '/' must always be encoded, the rest only if needed
        }
    } else {
        let bind_ip = match case.host {
            HostForm::Ip6 => "[::1]",
            _ => "127.0.0.1",
        };
        let default_port: u16 = if case.scheme == "ldaps" { 636 } else { 389 };
        let want_default = !case.explicit_port && is_tcp_scheme;
        let mut port = 0u16;
        if want_default {
            _lock = PortLock::take();
        }
        if case.peer != Peer::Absent || want_default {
            let addr = format!("{bind_ip}:{}", if want_default { default_port } else { 0 });
            match TcpListener::bind(&addr) {
                Ok(l) => {
                    if case.peer == Peer::Absent {
                        // nothing may listen: release the port again (it was only reserved to know it is free)
                        port = l.local_addr().map(|a| a.port()).unwrap_or(0);
                        drop(l);
                    } else {
                        let ep = serve_tcp("url-endpoint", l, case.peer.clone(), scheme_starttls, log.clone());
                        port = ep.port;
                        endpoints.push(ep);
                    }
                }
                Err(e) => skip = Some(format!("cannot bind {addr}: {e}")),
            }
        } else {
            // an unused port: bind and release
            if let Ok(l) = TcpListener::bind(format!("{bind_ip}:0")) {
                port = l.local_addr().map(|a| a.port()).unwrap_or(1);
            }
        }
        let host = match case.host {
            HostForm::Ip4 => "127.0.0.1",
            HostForm::Name => "localhost",
            HostForm::Ip6 => "[::1]",
            HostForm::Absent => "",
        };
        url = format!("{}://{host}{}", case.scheme, if case.explicit_port { format!(":{port}") } else { String::new() });
        if case.host == HostForm::Absent {
            url.push('/');
        }
    }
    obs.url = url.clone();
    // pre-opened stream
    let mut pre_tcp_peer: Option<Endpoint> = None;
    let mut unix_pair_peer: Option<UnixStream> = None;
    let mut std_stream = None;
    match case.std_stream {
        StdKind::None => {}
        StdKind::Invalid => std_stream = Some(ldap3::StdStream::Invalid),
        StdKind::Tcp => match TcpListener::bind("127.0.0.1:0") {
            Ok(l) => {
                let addr = l.local_addr().unwrap();
                let ep = serve_tcp("pre-opened-tcp", l, if is_tcp_scheme { case.peer.clone() } else { Peer::Accept }, scheme_starttls, log.clone());
                match TcpStream::connect(addr) {
                    Ok(s) => std_stream = Some(ldap3::StdStream::Tcp(s)),
                    Err(e) => skip = Some(format!("pre-connect: {e}")),
                }
                pre_tcp_peer = Some(ep);
            }
            Err(e) => skip = Some(format!("cannot bind pre-opened listener: {e}")),
        },
        StdKind::Unix => match UnixStream::pair() {
            Ok((a, b)) => {
                std_stream = Some(ldap3::StdStream::Unix(a));
                unix_pair_peer = Some(b);
            }
            Err(e) => skip = Some(format!("socketpair: {e}")),
        },
    }
    if let Some(s) = skip {
        obs.skipped = Some(s);
        for e in endpoints.iter_mut() {
            e.finish();
        }
        if let Some(mut e) = pre_tcp_peer {
            e.finish();
        }
        let _ = std::fs::remove_dir_all(&dir);
        return obs;
    }
    // --- settings ----------------------------------------------------------------------------
    let mut settings = ldap3::LdapConnSettings::new().set_starttls(case.starttls).set_no_tls_verify(case.no_tls_verify);
    if let Some(t) = case.conn_timeout_ms {
        settings = settings.set_conn_timeout(Duration::from_millis(t));
    }
    if case.trust_ca {
        settings = trust_harness_ca(settings);
    }
    if let Some(s) = std_stream {
        settings = settings.set_std_stream(s);
    }
    if case.clone_settings {
        let c = settings.clone();
        drop(settings);
        settings = c;
    }
    // --- the call ----------------------------------------------------------------------------
    crate::exec::IN_SIM.with(|f| *f.borrow_mut() = true);
    let want_bind = case.lane == "tls";
    let injected = matches!(&case.peer, Peer::Tls { starttls: StartTlsResp::SuccessPlusInjected, .. }) || case.std_stream == StdKind::Unix;
    let url2 = url.clone();
    let r = std::panic::catch_unwind(std::panic::AssertUnwindSafe(move || {
        if case.sync_api {
            let t0 = std::time::Instant::now();
            let r = ldap3::LdapConn::with_settings(settings, &url2);
            let _ = t0;
            match r {
                Ok(mut c) => {
                    let mut bind = None;
                    if want_bind {
                        bind = Some(match c.with_timeout(Duration::from_millis(if injected { 300 } else { 5000 })).simple_bind("cn=probe", "pw") {
                            Ok(r) => format!("ok:{}", r.text),
                            Err(ldap3::LdapError::Timeout { .. }) => "timeout".to_string(),
                            Err(e) => format!("err:{}", err_class(&e)),
                        });
                    }
                    ("ok".to_string(), 0u64, bind)
                }
                Err(e) => (format!("err:{}", err_class(&e)), 0, None),
            }
        } else {
            let rt = tokio::runtime::Builder::new_current_thread()
                .enable_all()
                .start_paused(true)
                .rng_seed(tokio::runtime::RngSeed::from_bytes(&tokio_seed.to_le_bytes()))
                .build()
                .expect("runtime");
            rt.block_on(async move {
                let t0 = tokio::time::Instant::now();
                let r = ldap3::LdapConnAsync::with_settings(settings, &url2).await;
                let dt = t0.elapsed().as_millis() as u64;
                match r {
                    Ok((conn, mut ldap)) => {
                        tokio::spawn(async move {
                            let _ = conn.drive().await;
                        });
                        let mut bind = None;
                        if want_bind {
                            // a timer is armed only when the peer is scripted never to answer inside TLS
                            let res = if injected { ldap.with_timeout(Duration::from_millis(300)).simple_bind("cn=probe", "pw").await } else { ldap.simple_bind("cn=probe", "pw").await };
                            bind = Some(match res {
                                Ok(r) => format!("ok:{}", r.text),
                                Err(ldap3::LdapError::Timeout { .. }) => "timeout".to_string(),
                                Err(e) => format!("err:{}", err_class(&e)),
                            });
                        }
                        drop(ldap);
                        ("ok".to_string(), dt, bind)
                    }
                    Err(e) => (format!("err:{}", err_class(&e)), dt, None),
                }
            })
        }
    }));
    crate::exec::IN_SIM.with(|f| *f.borrow_mut() = false);
    match r {
        Ok((o, t, b)) => {
            obs.outcome = o;
            obs.t_ms = t;
            obs.bind = b;
        }
        Err(_) => {
            let (msg, file) = crate::exec::LAST_PANIC.with(|p| p.borrow_mut().take()).unwrap_or_default();
            obs.outcome = format!("panic:{} ({})", crate::oracle::trunc(&msg, 60), file.rsplit('/').next().unwrap_or(""));
        }
    }
    // --- collect ------------------------------------------------------------------------------
    for e in endpoints.iter_mut() {
        let n = e.finish();
        if n > 0 {
            obs.reached.push(e.name.clone());
        }
    }
    if let Some(mut e) = pre_tcp_peer {
        // the harness's own pre-connect counts as one accept; more than one means the library dialled it again
        let n = e.finish();
        if n > 1 {
            obs.reached.push("pre-opened-tcp-dialled-again".into());
        }
    }
    drop(unix_pair_peer);
    obs.peer = log.lock().unwrap().clone();
    let _ = std::fs::remove_dir_all(&dir);
    obs
}
