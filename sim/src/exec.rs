//! The executor: decides which actor runs next. Runs inside one `block_on` of a paused-clock,
//! seeded, current-thread tokio runtime without an I/O driver.

use crate::io;
use crate::world::{self, EvKind};
use std::cell::RefCell;
use std::collections::BTreeSet;
use std::future::Future;
use std::panic::{catch_unwind, AssertUnwindSafe};
use std::pin::Pin;
use std::sync::{Arc, Mutex};
use std::task::{Context, Poll, Wake, Waker};

pub type Actor = Pin<Box<dyn Future<Output = ()>>>;

#[derive(Clone, Copy, Debug, PartialEq, Eq)]
pub enum Kind {
    Driver,
    Client,
    Server,
    Net,
}

#[derive(Clone, Copy, Debug, PartialEq, Eq)]
pub enum Verdict {
    Done,
    Hang,
    StepCap,
}

struct ActorWaker {
    id: usize,
    ready: Arc<Mutex<BTreeSet<usize>>>,
    outer: Arc<Mutex<Option<Waker>>>,
}

impl Wake for ActorWaker {
    fn wake(self: Arc<Self>) {
        self.wake_by_ref()
    }
    fn wake_by_ref(self: &Arc<Self>) {
        self.ready.lock().unwrap().insert(self.id);
        if let Some(w) = self.outer.lock().unwrap().as_ref() {
            w.wake_by_ref();
        }
    }
}

thread_local! {
    pub static LAST_PANIC: RefCell<Option<(String, String)>> = const { RefCell::new(None) };
    pub static IN_SIM: RefCell<bool> = const { RefCell::new(false) };
}

/// Install a process-wide panic hook that stays silent for simulation threads and records
/// message and source file.
pub fn install_panic_hook() {
    use std::sync::Once;
    static ONCE: Once = Once::new();
    ONCE.call_once(|| {
        let default = std::panic::take_hook();
        std::panic::set_hook(Box::new(move |info| {
            let in_sim = IN_SIM.with(|f| *f.borrow());
            if !in_sim {
                default(info);
                return;
            }
            let msg = if let Some(s) = info.payload().downcast_ref::<&str>() {
                s.to_string()
            } else if let Some(s) = info.payload().downcast_ref::<String>() {
                s.clone()
            } else {
                "<non-string panic>".to_string()
            };
            let file = info.location().map(|l| l.file().to_string()).unwrap_or_default();
            LAST_PANIC.with(|p| *p.borrow_mut() = Some((msg, file)));
        }));
    });
}

pub struct Exec {
    actors: Vec<Option<Actor>>,
    names: Vec<String>,
    kinds: Vec<Kind>,
    wakers: Vec<Waker>,
    ready: Arc<Mutex<BTreeSet<usize>>>,
    outer: Arc<Mutex<Option<Waker>>>,
    watchdog: Pin<Box<tokio::time::Sleep>>,
    pub steps: u64,
    pub step_cap: u64,
    clients_live: usize,
    driver_live: bool,
    /// keep running (and let time pass) until the driver has exited
    final_snapshot_done: bool,
    sched_hash: u64,
}

impl Exec {
    pub fn new(watchdog_ms: u64, step_cap: u64) -> Exec {
        Exec {
            actors: Vec::new(),
            names: Vec::new(),
            kinds: Vec::new(),
            wakers: Vec::new(),
            ready: Arc::new(Mutex::new(BTreeSet::new())),
            outer: Arc::new(Mutex::new(None)),
            watchdog: Box::pin(tokio::time::sleep(std::time::Duration::from_millis(watchdog_ms))),
            steps: 0,
            step_cap,
            clients_live: 0,
            driver_live: false,
            final_snapshot_done: false,
            sched_hash: 0xcbf2_9ce4_8422_2325,
        }
    }

    pub fn spawn(&mut self, name: &str, kind: Kind, a: Actor) -> usize {
        let id = self.actors.len();
        self.actors.push(Some(a));
        self.names.push(name.to_string());
        self.kinds.push(kind);
        let w = Arc::new(ActorWaker { id, ready: self.ready.clone(), outer: self.outer.clone() });
        self.wakers.push(Waker::from(w));
        self.ready.lock().unwrap().insert(id);
        match kind {
            Kind::Client => self.clients_live += 1,
            Kind::Driver => self.driver_live = true,
            _ => {}
        }
        id
    }

    pub fn sched_hash(&self) -> u64 {
        self.sched_hash
    }

    fn snapshot(label: &str) {
        let obs = world::with(|w| w.observer.as_ref().map(|o| o.verif_id_table()));
        let (r, s) = ldap3::verif::routing_maps();
        if let Some((last, in_use)) = obs {
            world::ev(EvKind::Snapshot { label: label.to_string(), last, in_use, resultmap: r, searchmap: s });
        }
    }

    fn quiescent() -> bool {
        // nothing scheduled at the server, nothing in transit, and the driver is not parked in a stalled write
        // (it would still have queued scrubs and requests to process once the peer reads again)
        let (pending, stalled) = world::with(|w| (w.srv_pending, w.pipe.w_waker.is_some()));
        pending == 0 && !stalled && io::net_idle()
    }
}

impl Future for Exec {
    type Output = Verdict;

    fn poll(mut self: Pin<&mut Self>, cx: &mut Context<'_>) -> Poll<Verdict> {
        let this = &mut *self;
        *this.outer.lock().unwrap() = Some(cx.waker().clone());
        if this.clients_live == 0 && !this.driver_live {
            return Poll::Ready(Verdict::Done);
        }
        if this.steps >= this.step_cap {
            world::ev(EvKind::StepCap);
            return Poll::Ready(Verdict::StepCap);
        }
        let ready: Vec<usize> = this.ready.lock().unwrap().iter().copied().filter(|&i| this.actors[i].is_some()).collect();
        let pick = if ready.is_empty() {
            None
        } else {
            let spurious = world::with(|w| {
                let pm = w.knobs.spurious_pm;
                pm > 0 && w.sched.permille(pm)
            });
            if spurious {
                let live: Vec<usize> = (0..this.actors.len()).filter(|&i| this.actors[i].is_some()).collect();
                let k = world::with(|w| {
                    w.stats.bump("sched.spurious_poll");
                    w.sched.draw(live.len() as u32)
                }) as usize;
                Some(live[k])
            } else if ready.len() == 1 {
                Some(ready[0])
            } else {
                let k = world::with(|w| w.sched.draw(ready.len() as u32)) as usize;
                Some(ready[k])
            }
        };
        match pick {
            Some(id) => {
                this.ready.lock().unwrap().remove(&id);
                this.steps += 1;
                this.sched_hash = (this.sched_hash ^ id as u64).wrapping_mul(0x100_0000_01b3);
                let waker = this.wakers[id].clone();
                let mut acx = Context::from_waker(&waker);
                let fut = this.actors[id].as_mut().unwrap();
                let r = catch_unwind(AssertUnwindSafe(|| fut.as_mut().poll(&mut acx)));
                let finished = match r {
                    Ok(Poll::Pending) => false,
                    Ok(Poll::Ready(())) => true,
                    Err(_) => {
                        let (msg, file) = LAST_PANIC.with(|p| p.borrow_mut().take()).unwrap_or_default();
                        world::with(|w| {
                            w.stats.bump(&format!("panic.{}", this.names[id]));
                            w.ev(EvKind::Panic { actor: this.names[id].clone(), msg, file });
                        });
                        true
                    }
                };
                if finished {
                    // drop the future outside any world borrow
                    let a = this.actors[id].take();
                    let _ = catch_unwind(AssertUnwindSafe(move || drop(a)));
                    match this.kinds[id] {
                        Kind::Client => {
                            this.clients_live -= 1;
                            world::ev(EvKind::ClientDone { client: id });
                        }
                        Kind::Driver => this.driver_live = false,
                        _ => {}
                    }
                }
                cx.waker().wake_by_ref();
                Poll::Pending
            }
            None => {
                // Nothing runnable at this virtual instant.
                let quiescent = Exec::quiescent();
                let (waiting, _gen) = world::with(|w| (w.barrier_waiting.len(), w.barrier_gen));
                if quiescent && waiting > 0 && waiting == this.clients_live {
                    Exec::snapshot("barrier");
                    let ws: Vec<Waker> = world::with(|w| {
                        w.barrier_gen += 1;
                        w.stats.bump("barrier.released");
                        std::mem::take(&mut w.barrier_waiting).into_values().collect()
                    });
                    for w in ws {
                        w.wake();
                    }
                    cx.waker().wake_by_ref();
                    return Poll::Pending;
                }
                if quiescent && this.clients_live == 0 && !this.final_snapshot_done {
                    this.final_snapshot_done = true;
                    Exec::snapshot("final");
                    let obs = world::with(|w| w.observer.take());
                    drop(obs);
                    cx.waker().wake_by_ref();
                    return Poll::Pending;
                }
                if this.watchdog.as_mut().poll(cx).is_ready() {
                    world::ev(EvKind::Hang);
                    return Poll::Ready(Verdict::Hang);
                }
                Poll::Pending
            }
        }
    }
}

impl Drop for Exec {
    fn drop(&mut self) {
        // Tear the actors down in a fixed order, tolerating panics in destructors.
        for a in self.actors.iter_mut() {
            let x = a.take();
            let _ = catch_unwind(AssertUnwindSafe(move || drop(x)));
        }
    }
}

/// Future a client awaits at a `Barrier` step.
pub struct BarrierFut {
    pub client: usize,
    gen: Option<u64>,
}

impl BarrierFut {
    pub fn new(client: usize) -> BarrierFut {
        BarrierFut { client, gen: None }
    }
}

impl Future for BarrierFut {
    type Output = ();
    fn poll(mut self: Pin<&mut Self>, cx: &mut Context<'_>) -> Poll<()> {
        let client = self.client;
        let g = self.gen;
        let (done, gen) = world::with(|w| match g {
            None => {
                w.barrier_waiting.insert(client, cx.waker().clone());
                (false, w.barrier_gen)
            }
            Some(g0) => {
                if w.barrier_gen > g0 {
                    (true, g0)
                } else {
                    // spurious poll: re-register
                    w.barrier_waiting.insert(client, cx.waker().clone());
                    (false, g0)
                }
            }
        });
        self.gen = Some(gen);
        if done {
            Poll::Ready(())
        } else {
            Poll::Pending
        }
    }
}
