//! Scenario generators (one per family). Everything is drawn from the scenario PRNG, which is
//! separate from the schedule source.

use crate::msg::{Bytes, Ctl, Filter, RespOp, ResultSpec};
use crate::rng::Rng;
use crate::scenario::*;

pub const RESULT_CODES: &[u32] = &[
    0, 1, 2, 3, 4, 5, 6, 7, 8, 10, 11, 12, 13, 14, 16, 17, 18, 19, 20, 21, 32, 33, 34, 36, 48, 49, 50, 51, 52, 53, 54, 64, 65, 66, 67, 68, 69, 71, 80, 88,
    118, 119, 120, 121, 122, 123,
];

pub const KNOWN_OIDS: &[&str] = &[
    "1.2.840.113556.1.4.319",
    "1.3.6.1.1.13.2",
    "1.3.6.1.1.13.1",
    "1.3.6.1.4.1.4203.1.9.1.3",
    "1.3.6.1.4.1.4203.1.9.1.2",
    "2.16.840.1.113730.3.4.2",
    "1.2.826.0.1.3344810.2.3",
];

pub fn gen_oid(r: &mut Rng) -> String {
    if r.chance(1, 3) {
        // never the paging control here: it has a meaning for adapters
        r.pick(&KNOWN_OIDS[1..]).to_string()
    } else {
        format!("1.3.6.1.4.1.{}.{}", r.below(70000), r.below(50))
    }
}

pub fn gen_bytes(r: &mut Rng, max: usize) -> Bytes {
    let n = r.usize(max + 1);
    match r.below(4) {
        0 => r.bytes(n),
        1 => (0..n).map(|_| b'a' + r.below(26) as u8).collect(),
        2 => gen_string(r, n).into_bytes(),
        _ => {
            let mut v = r.bytes(n);
            for b in v.iter_mut() {
                if r.chance(1, 4) {
                    *b = *r.pick(&[0u8, b'*', b'(', b')', b'\\', 0x80, 0xff, b' ', b'#', b','])
                }
            }
            v
        }
    }
}

pub fn gen_string(r: &mut Rng, max_chars: usize) -> String {
    let n = r.usize(max_chars + 1);
    let mut s = String::new();
    for _ in 0..n {
        let c = match r.below(10) {
            0 => *r.pick(&['é', 'ß', '中', '𝄞', '\u{0}', '\\', '*', '(', ')', ',', '=', '+', '"', '#', ' ', ';', '<', '>']),
            1 => char::from_u32(0x80 + r.below(0x700) as u32).unwrap_or('x'),
            _ => (b'a' + r.below(26) as u8) as char,
        };
        s.push(c);
    }
    s
}

/// Response-side controls: explicit FALSE criticality and empty values are legal.
pub fn gen_resp_ctrls(r: &mut Rng, label: &str) -> Option<Vec<Ctl>> {
    if r.chance(2, 3) {
        return None;
    }
    let n = r.usize(4);
    Some(
        (0..n)
            .map(|i| Ctl {
                oid: gen_oid(r).into_bytes(),
                crit: *r.pick(&[None, None, Some(true), Some(false)]),
                val: match r.below(3) {
                    0 => None,
                    1 => Some(vec![]),
                    _ => Some(format!("{label}/c{i}").into_bytes()),
                },
            })
            .collect(),
    )
}

/// Request-side controls (what the API can express: criticality is a bool).
pub fn gen_req_ctrls(r: &mut Rng, label: &str) -> Option<Vec<Ctl>> {
    if r.chance(2, 3) {
        return None;
    }
    let n = r.usize(4);
    Some(
        (0..n)
            .map(|i| Ctl {
                oid: gen_oid(r).into_bytes(),
                crit: if r.chance(1, 3) { Some(true) } else { None },
                val: match r.below(3) {
                    0 => None,
                    1 => Some(vec![]),
                    _ => Some(format!("{label}/rc{i}").into_bytes()),
                },
            })
            .collect(),
    )
}

pub fn gen_result(r: &mut Rng, text: &str) -> ResultSpec {
    let rc = if r.chance(1, 2) { 0 } else { *r.pick(RESULT_CODES) };
    ResultSpec {
        rc,
        rc_wide: None,
        rc_octets: None,
        matched: if r.chance(1, 4) { format!("dc=m,{text}") } else { String::new() },
        text: text.to_string(),
        refs: if r.chance(1, 5) { Some((0..r.usize(4)).map(|i| format!("ldap://h{i}/{text}")).collect()) } else { None },
        sasl_creds: None,
        exop_name: None,
        exop_val: None,
    }
}

pub fn gen_item(r: &mut Rng, label: &str) -> RespOp {
    match r.below(8) {
        0 => RespOp::Reference { uris: (0..1 + r.usize(3)).map(|i| format!("ldap://ref{i}/{label}")).collect() },
        1 => RespOp::Intermediate {
            name: if r.chance(1, 2) { Some(format!("1.3.6.1.4.1.4203.1.9.1.4")) } else { None },
            val: Some(label.as_bytes().to_vec()),
        },
        _ => {
            let na = r.usize(4);
            RespOp::Entry {
                dn: format!("cn={label}"),
                attrs: (0..na)
                    .map(|a| (format!("a{a}"), (0..r.usize(4)).map(|v| format!("{label}.{a}.{v}").into_bytes()).collect()))
                    .collect(),
            }
        }
    }
}

pub fn gen_items_plan(r: &mut Rng, tok: &str, max_items: usize, with_done: bool, gaps: &[u64]) -> ReplyPlan {
    let n = r.usize(max_items + 1);
    let items = (0..n)
        .map(|i| {
            let label = format!("{tok}:i{i}");
            ItemPlan { gap_ms: *r.pick(gaps), op: gen_item(r, &label), ctrls: gen_resp_ctrls(r, &label) }
        })
        .collect();
    let done = if with_done {
        let label = format!("{tok}:done");
        Some(DonePlan { gap_ms: *r.pick(gaps), res: gen_result(r, &label), ctrls: gen_resp_ctrls(r, &label) })
    } else {
        None
    };
    ReplyPlan::Items { items, done, extra: vec![] }
}

pub fn simple_search(tok: &str, r: &mut Rng) -> SearchSpec {
    SearchSpec {
        base: tok.to_string(),
        scope: r.below(3) as u8,
        filter_str: "(objectClass=*)".into(),
        filter: Some(Filter::Present(b"objectClass".to_vec())),
        attrs: if r.chance(1, 2) { vec![] } else { vec!["cn".into(), "+".into()] },
    }
}

/// A single-result operation whose request carries `tok` where the server looks for it.
pub fn gen_single_op(r: &mut Rng, tok: &str) -> OpSpec {
    match r.below(7) {
        0 => OpSpec::SimpleBind { dn: tok.into(), pw: "secret".into() },
        1 => OpSpec::Add { dn: tok.into(), attrs: vec![(b"cn".to_vec(), vec![b"v".to_vec()])] },
        2 => OpSpec::Compare { dn: tok.into(), attr: "cn".into(), val: b"v".to_vec() },
        3 => OpSpec::Delete { dn: tok.into() },
        4 => OpSpec::Modify { dn: tok.into(), mods: vec![ModSpec::Replace(b"cn".to_vec(), vec![b"w".to_vec()])] },
        5 => OpSpec::ModifyDn { dn: tok.into(), rdn: "cn=n".into(), delete_old: r.chance(1, 2), new_sup: None },
        _ => OpSpec::Extended { oid: "1.3.6.1.4.1.4203.1.11.3".into(), val: Some(tok.as_bytes().to_vec()) },
    }
}

pub fn gen_single_plan(r: &mut Rng, op: &OpSpec, tok: &str, delays: &[u64], with_extras: bool) -> ReplyPlan {
    let label = format!("{tok}:reply");
    let mut res = gen_result(r, &label);
    if let OpSpec::Extended { .. } = op {
        if r.chance(1, 2) {
            res.exop_name = Some(format!("1.3.6.1.4.1.99.{}", r.below(100)));
        }
        if r.chance(1, 2) {
            res.exop_val = Some(format!("{label}/xv").into_bytes());
        }
    }
    if let OpSpec::Compare { .. } = op {
        if r.chance(2, 3) {
            res.rc = *r.pick(&[5, 6]);
        }
    }
    let after_ms = *r.pick(delays);
    let mut extra = vec![];
    if with_extras && r.chance(1, 5) {
        for i in 0..1 + r.usize(2) {
            let xl = format!("{tok}:extra{i}");
            let tag = match op {
                OpSpec::SimpleBind { .. } | OpSpec::SaslExternal => 1,
                OpSpec::Add { .. } => 9,
                OpSpec::Compare { .. } => 15,
                OpSpec::Delete { .. } => 11,
                OpSpec::Modify { .. } => 7,
                OpSpec::ModifyDn { .. } => 13,
                _ => 24,
            };
            extra.push(Extra { after_ms: after_ms + *r.pick(&[0, 0, 1, 7, 100]), op: RespOp::Result { tag, res: gen_result(r, &xl) }, ctrls: None });
        }
    }
    ReplyPlan::Single { after_ms, res, ctrls: gen_resp_ctrls(r, &label), extra }
}

pub fn gen_knobs(r: &mut Rng, allow_onebyte: bool) -> Knobs {
    let chunking = match r.below(12) {
        0..=2 => Chunking::Whole,
        3 if allow_onebyte => Chunking::OneByte,
        4..=6 => Chunking::FrameAligned { shift: *r.pick(&[-1, 0, 1, 2]) },
        _ => Chunking::Random { max: *r.pick(&[2, 3, 7, 16, 64, 64, 300, 300]) },
    };
    Knobs {
        chunking,
        net_delay_max_ms: *r.pick(&[0, 0, 0, 1, 3, 10]),
        max_read: *r.pick(&[0, 0, 0, 0, 0, 0, 1, 2, 7, 7, 64, 64, 4096]),
        random_read_cap: r.chance(1, 6),
        read_pending_pm: *r.pick(&[0, 0, 0, 0, 50, 300]),
        write_quota: *r.pick(&[0, 0, 0, 0, 0, 0, 1, 7, 7, 64, 64]),
        write_pending_pm: *r.pick(&[0, 0, 0, 100]),
        spurious_pm: *r.pick(&[0, 0, 0, 0, 30, 200]),
        yield_pm: *r.pick(&[0, 0, 300, 1000]),
        server_closes_on_unbind: r.chance(3, 4),
        lenform_extra_max: *r.pick(&[0, 0, 0, 1, 3]),
        lenform_seed: r.next_u64(),
        write_stall: None,
    }
}

pub fn gen_unsolicited(r: &mut Rng, horizon_ms: u64, tokens: &[String]) -> Vec<Unsol> {
    let mut v = vec![];
    if r.chance(1, 2) {
        return v;
    }
    for i in 0..1 + r.usize(4) {
        let label = format!("unsol{i}");
        let at_ms = r.below(horizon_ms + 1);
        let (id, op) = match r.below(4) {
            0 => (
                UnsolId::Zero,
                RespOp::Result {
                    tag: 24,
                    res: ResultSpec { exop_name: Some("1.3.6.1.4.1.1466.20036".into()), ..gen_result(r, &label) },
                },
            ),
            1 => (UnsolId::Fixed(100_000 + r.below(1000) as i64), RespOp::Result { tag: *r.pick(&[1, 5, 7, 9, 11, 13, 15, 24]), res: gen_result(r, &label) }),
            2 => (UnsolId::Fixed(*r.pick(&[2147483647, 65536, 1 << 24])), gen_item(r, &label)),
            _ => {
                if tokens.is_empty() {
                    (UnsolId::Fixed(200_000), RespOp::Result { tag: 7, res: gen_result(r, &label) })
                } else {
                    // late message under the ID of a single-result operation, long after it completed
                    let t = r.pick(tokens).clone();
                    v.push(Unsol { at_ms: 5_000 + at_ms, id: UnsolId::OfToken(t), op: RespOp::Result { tag: 7, res: gen_result(r, &label) }, ctrls: None });
                    continue;
                }
            }
        };
        v.push(Unsol { at_ms, id, op, ctrls: gen_resp_ctrls(r, &label) });
    }
    v
}

/// Family MUX: several handles, mixed single-result operations, `search()` and streams,
/// replies in any order, unsolicited traffic, no connection fault, no timeouts.
pub fn gen_mux(seed: u64) -> Scenario {
    let mut r = Rng::new(seed);
    let mut sc = Scenario::new("MUX");
    sc.knobs = gen_knobs(&mut r, true);
    let delays: &[u64] = match r.below(3) {
        0 => &[0],
        1 => &[0, 0, 1, 2, 5],
        _ => &[0, 1, 1, 3, 10, 50, 200],
    };
    let gaps: &[u64] = if r.chance(1, 2) { &[0] } else { &[0, 0, 1, 3] };
    // In a sixth of the runs message IDs recur (a search stays outstanding while the shared counter comes
    // round to just below its ID). Once IDs can recur, a duplicate, late or post-cancellation message for an
    // old ID may legitimately reach the new owner of that ID - a hazard of the protocol, not of the client -
    // so those runs carry no such traffic: no extras, no cancellations, no early finish, no in-flight abandon.
    let recycle = r.chance(1, 6);
    let nclients = 1 + r.usize(5).min(r.usize(5) + 1);
    let max_items = *r.pick(&[2, 2, 4, 4, 12]);
    let mut single_tokens = vec![];
    for c in 0..nclients {
        let mut cs = ClientScript { steps: vec![], start_delay_ms: *r.pick(&[0, 0, 0, 1, 5]) };
        let nsteps = 1 + r.usize(8).min(r.usize(8) + 1);
        let mut slot = 0usize;
        let mut k = 0;
        while k < nsteps {
            let tok = format!("c{c}s{}", cs.steps.len());
            match r.below(100) {
                0..=44 => {
                    let op = gen_single_op(&mut r, &tok);
                    let plan = gen_single_plan(&mut r, &op, &tok, delays, !recycle);
                    sc.plan.by_token.insert(tok.clone(), plan);
                    let cancel = if !recycle && r.chance(1, 12) { Some(r.below(4) as u32) } else { None };
                    if cancel.is_none() {
                        single_tokens.push(tok.clone());
                    }
                    cs.steps.push(Step::Op { token: tok, op, mods: Mods { controls: gen_req_ctrls(&mut r, "q"), ..Default::default() }, cancel_after_polls: cancel });
                }
                45..=64 => {
                    let plan = gen_items_plan(&mut r, &tok, max_items, true, gaps);
                    sc.plan.by_token.insert(tok.clone(), plan);
                    cs.steps.push(Step::Op { token: tok.clone(), op: OpSpec::Search(simple_search(&tok, &mut r)), mods: Mods::default(), cancel_after_polls: None });
                }
                65..=92 => {
                    let plan = gen_items_plan(&mut r, &tok, max_items, true, gaps);
                    let n_items = match &plan {
                        ReplyPlan::Items { items, .. } => items.len(),
                        _ => 0,
                    };
                    sc.plan.by_token.insert(tok.clone(), plan);
                    let adapter = if r.chance(1, 2) { Adapter::Direct } else { Adapter::EntriesOnly };
                    cs.steps.push(Step::Open { token: tok.clone(), slot, search: simple_search(&tok, &mut r), adapter, mods: Mods::default() });
                    // read everything, or stop early
                    let reads = if recycle || r.chance(2, 3) { n_items + 1 } else { r.usize(n_items + 1) };
                    for _ in 0..reads {
                        let cancel = if !recycle && adapter == Adapter::Direct && r.chance(1, 15) { Some(r.below(3) as u32) } else { None };
                        if cancel.is_some() {
                            // a cancelled next() is followed by a real one
                            cs.steps.push(Step::Next { slot, cancel_after_polls: cancel });
                        }
                        cs.steps.push(Step::Next { slot, cancel_after_polls: None });
                    }
                    cs.steps.push(Step::Finish { slot });
                    if r.chance(1, 3) {
                        cs.steps.push(Step::DropStream { slot });
                    }
                    slot += 1;
                }
                93..=95 => cs.steps.push(Step::Op {
                    token: tok,
                    op: OpSpec::Abandon(IdRef::Raw(300_000 + r.below(1000) as i32)),
                    mods: Mods::default(),
                    cancel_after_polls: None,
                }),
                96..=97 => cs.steps.push(Step::Sleep { ms: r.below(20) }),
                _ => cs.steps.push(Step::Probe),
            }
            k += 1;
        }
        if r.chance(1, 6) {
            // drop the handle early; streams keep the connection alive
            let pos = r.usize(cs.steps.len() + 1);
            let pos = first_non_op_after(&cs.steps, pos);
            cs.steps.insert(pos, Step::DropHandle);
            // operations after the drop are skipped by the interpreter; re-key nothing
        }
        sc.clients.push(cs);
    }
    // Sometimes: an operation is abandoned from another handle while its caller is still waiting; the
    // server answers it much later all the same (the late reply must reach nobody).
    if !recycle && r.chance(1, 5) {
        let vtok = format!("v{}", sc.clients.len());
        let op = gen_single_op(&mut r, &vtok);
        let mut plan = gen_single_plan(&mut r, &op, &vtok, &[0], false);
        if let ReplyPlan::Single { after_ms, .. } = &mut plan {
            *after_ms = 60 + r.below(100);
        }
        sc.plan.by_token.insert(vtok.clone(), plan);
        sc.clients.push(ClientScript { steps: vec![Step::Op { token: vtok.clone(), op, mods: Mods::default(), cancel_after_polls: None }], start_delay_ms: 0 });
        sc.clients.push(ClientScript {
            steps: vec![Step::Sleep { ms: 10 }, Step::Op { token: format!("{vtok}ab"), op: OpSpec::Abandon(IdRef::Token(vtok)), mods: Mods::default(), cancel_after_polls: None }],
            start_delay_ms: 0,
        });
    }
    // Sometimes: a search whose stream is still being read is abandoned from another handle; the server goes on
    // sending entries for a while all the same. The reader must get an error, never one of the late entries.
    if !recycle && r.chance(1, 6) {
        let stok = format!("vs{}", sc.clients.len());
        // delivery time = emission time: what the server sends at once is there before the abandon
        sc.knobs.net_delay_max_ms = 0;
        let k = 1 + r.usize(2);
        let mut items: Vec<ItemPlan> = (0..k).map(|i| ItemPlan { gap_ms: 0, op: gen_item(&mut r, &format!("{stok}:i{i}")), ctrls: None }).collect();
        for i in 0..1 + r.usize(3) {
            items.push(ItemPlan { gap_ms: if i == 0 { 60 } else { 3 }, op: gen_item(&mut r, &format!("{stok}:late{i}")), ctrls: None });
        }
        sc.plan.by_token.insert(stok.clone(), ReplyPlan::Items { items, done: None, extra: vec![] });
        let mut a = ClientScript::default();
        a.steps.push(Step::Open { token: stok.clone(), slot: 0, search: simple_search(&stok, &mut r), adapter: if r.chance(1, 2) { Adapter::Direct } else { Adapter::EntriesOnly }, mods: Mods::default() });
        // EntriesOnly skips what is not an entry: read only what the early items are sure to yield, then one more
        // call that is still waiting when the abandon comes
        let early_entries = match sc.plan.by_token.get(&stok) {
            Some(ReplyPlan::Items { items, .. }) => items.iter().take(k).filter(|it| matches!(it.op, RespOp::Entry { .. })).count(),
            _ => 0,
        };
        let direct = matches!(a.steps[0], Step::Open { adapter: Adapter::Direct, .. });
        for _ in 0..if direct { k } else { early_entries } {
            a.steps.push(Step::Next { slot: 0, cancel_after_polls: None });
        }
        a.steps.push(Step::Next { slot: 0, cancel_after_polls: None });
        a.steps.push(Step::State { slot: 0 });
        a.steps.push(Step::Finish { slot: 0 });
        sc.clients.push(a);
        sc.clients.push(ClientScript {
            // after everything sent at once has arrived (no network delay in these runs), before the late items (60 ms)
            steps: vec![Step::Sleep { ms: 25 }, Step::Op { token: format!("{stok}ab"), op: OpSpec::Abandon(IdRef::Token(stok)), mods: Mods::default(), cancel_after_polls: None }],
            start_delay_ms: 0,
        });
    }
    // Sometimes (single handle, nothing else going on): the start of a search is dropped while its request is still
    // queued, then the counter is put back so that the next operation is given the same ID. Nothing of the dropped
    // search may stand in the way of that operation's reply.
    if !recycle && sc.clients.len() == 1 && r.chance(1, 8) {
        let start = *r.pick(&[5000i32, 300_000]);
        let dtok = "stale0".to_string();
        sc.plan.by_token.insert(dtok.clone(), gen_items_plan(&mut r, &dtok, 2, true, &[0]));
        // half of the time the driver is certainly busy when the call is dropped: another handle's request is being
        // written to a peer that does not read for the first 5 ms
        let busy = r.chance(1, 2);
        if busy {
            sc.knobs.write_quota = 0;
            sc.knobs.write_pending_pm = 0;
            sc.knobs.write_stall = Some((0, 5));
            let btok = "stale-busy".to_string();
            let op = gen_single_op(&mut r, &btok);
            let plan = gen_single_plan(&mut r, &op, &btok, &[0], false);
            sc.plan.by_token.insert(btok.clone(), plan);
            sc.clients.push(ClientScript { steps: vec![Step::Op { token: btok, op, mods: Mods::default(), cancel_after_polls: None }], start_delay_ms: 0 });
        }
        let mut pre = vec![
            Step::Sleep { ms: 1 },
            Step::SetIdCounter { last: start },
            Step::OpenDropped { token: dtok.clone(), search: simple_search(&dtok, &mut r), polls: 1 },
            Step::Sleep { ms: 10 },
            Step::SetIdCounter { last: start },
        ];
        let otok = "stale1".to_string();
        let op = gen_single_op(&mut r, &otok);
        let plan = gen_single_plan(&mut r, &op, &otok, &[0, 2], false);
        sc.plan.by_token.insert(otok.clone(), plan);
        pre.push(Step::Op { token: otok, op, mods: Mods::default(), cancel_after_polls: None });
        pre.push(Step::Sleep { ms: 5 });
        let cs = &mut sc.clients[0];
        let rest = std::mem::take(&mut cs.steps);
        cs.steps = pre;
        cs.steps.extend(rest);
        cs.start_delay_ms = 0;
    }
    // Sometimes: a search stays outstanding (it has delivered items, the server never finishes it) while the
    // shared ID counter comes round to just below its ID - the state a long history of allocations produces.
    let mut moved_counter = false;
    if recycle {
        let c = sc.clients.len();
        let htok = format!("h{c}");
        let n_items = 1 + r.usize(2);
        let items = (0..n_items).map(|i| ItemPlan { gap_ms: 0, op: gen_item(&mut r, &format!("{htok}:i{i}")), ctrls: None }).collect();
        sc.plan.by_token.insert(htok.clone(), ReplyPlan::Items { items, done: None, extra: vec![] });
        // Variant "orphan": the stream is dropped without finish() after its first item while the server goes on
        // sending. The ID of such a search is never released (nobody finished it), so the later items cannot
        // reach anybody - not even once the counter has come round.
        let orphan = r.chance(1, 2);
        if orphan {
            let more = 3 + r.usize(4);
            if let Some(ReplyPlan::Items { items, .. }) = sc.plan.by_token.get_mut(&htok) {
                items.truncate(1);
                for i in 0..more {
                    items.push(ItemPlan { gap_ms: if i < 2 { 2 } else { 3 }, op: gen_item(&mut r, &format!("{htok}:late{i}")), ctrls: None });
                }
            }
        }
        let mut cs = ClientScript::default();
        cs.steps.push(Step::Open { token: htok.clone(), slot: 0, search: simple_search(&htok, &mut r), adapter: Adapter::Direct, mods: Mods::default() });
        cs.steps.push(Step::Next { slot: 0, cancel_after_polls: None });
        if orphan {
            cs.steps.push(Step::DropStream { slot: 0 });
            cs.steps.push(Step::Sleep { ms: 5 });
        }
        cs.steps.push(Step::SetIdCounterBefore { token: htok.clone(), back: 1 + r.below(3) as i32 });
        for k in 0..2 + r.usize(3) {
            let tok = format!("h{c}k{k}");
            if orphan {
                // slow replies: the operations are outstanding while the orphan's items keep coming
                let op = gen_single_op(&mut r, &tok);
                let plan = gen_single_plan(&mut r, &op, &tok, &[3, 5], false);
                sc.plan.by_token.insert(tok.clone(), plan);
                cs.steps.push(Step::Op { token: tok, op, mods: Mods::default(), cancel_after_polls: None });
            } else if r.chance(1, 3) {
                let plan = gen_items_plan(&mut r, &tok, 2, true, &[0, 1]);
                sc.plan.by_token.insert(tok.clone(), plan);
                cs.steps.push(Step::Op { token: tok.clone(), op: OpSpec::Search(simple_search(&tok, &mut r)), mods: Mods::default(), cancel_after_polls: None });
            } else {
                let op = gen_single_op(&mut r, &tok);
                let plan = gen_single_plan(&mut r, &op, &tok, &[0, 1, 3], false);
                sc.plan.by_token.insert(tok.clone(), plan);
                cs.steps.push(Step::Op { token: tok, op, mods: Mods::default(), cancel_after_polls: None });
            }
        }
        if !orphan {
            if n_items > 1 {
                cs.steps.push(Step::Next { slot: 0, cancel_after_polls: None });
            }
            cs.steps.push(Step::Finish { slot: 0 });
        }
        sc.clients.push(cs);
        moved_counter = true;
    }
    sc.plan.unsolicited = gen_unsolicited(&mut r, 60, &single_tokens);
    if moved_counter {
        // once IDs can recur within the run, a duplicate or late message for an old ID may legitimately
        // reach the new owner of that ID: this shape carries no such traffic
        for p in sc.plan.by_token.values_mut() {
            match p {
                ReplyPlan::Single { extra, .. } | ReplyPlan::Items { extra, .. } => extra.clear(),
                _ => {}
            }
        }
        sc.plan.unsolicited.retain(|u| !matches!(u.id, UnsolId::OfToken(_)));
        for c in sc.clients.iter_mut() {
            for st in c.steps.iter_mut() {
                if let Step::Op { cancel_after_polls, .. } | Step::Next { cancel_after_polls, .. } = st {
                    *cancel_after_polls = None;
                }
            }
        }
    }
    sc.id_table = gen_id_start(&mut r);
    if !moved_counter && r.chance(1, 8) {
        // the counter passes the top of the ID space during the run, while notices with message ID 0 arrive
        sc.id_table = Some((ID_MAX - r.below(6) as i32, vec![]));
        for i in 0..1 + r.usize(3) {
            let label = format!("notice{i}");
            sc.plan.unsolicited.push(Unsol {
                at_ms: r.below(8),
                id: UnsolId::Zero,
                op: RespOp::Result { tag: *r.pick(&[24, 24, 1, 7, 11]), res: ResultSpec { exop_name: Some("1.3.6.1.4.1.1466.20036".into()), ..gen_result(&mut r, &label) } },
                ctrls: None,
            });
        }
    }
    let start = sc.id_table.as_ref().map(|t| t.0 as i64).unwrap_or(0);
    keep_ids_apart(&mut sc, start);
    sc
}

/// IDs used for unsolicited messages and abandons of unknown operations must not fall into the
/// window of IDs the run will really allocate.
pub fn keep_ids_apart(sc: &mut Scenario, start: i64) {
    let fix = |x: i64| -> i64 {
        if x > start - 10 && x < start + 500 {
            let y = x + 5000;
            if y > 2147483647 {
                x - 5000
            } else {
                y
            }
        } else {
            x
        }
    };
    for u in sc.plan.unsolicited.iter_mut() {
        if let UnsolId::Fixed(x) = &mut u.id {
            *x = fix(*x);
        }
    }
    for c in sc.clients.iter_mut() {
        for st in c.steps.iter_mut() {
            if let Step::Op { op: OpSpec::Abandon(IdRef::Raw(x)), .. } = st {
                *x = fix(*x as i64) as i32;
            }
        }
    }
}

/// Position of the ID counter at the start of a run: mostly 0, otherwise around the values where
/// the INTEGER encoding of the message ID changes length, or anywhere in the ID space.
pub fn gen_id_start(r: &mut Rng) -> Option<(i32, Vec<i32>)> {
    match r.below(6) {
        0 | 1 | 2 => None,
        3 => {
            let b = *r.pick(&[127i64, 255, 32767, 65535, 8388607, 16777215]);
            Some(((b - r.below(12) as i64).max(0) as i32, vec![]))
        }
        4 => Some((r.below(2147483000) as i32, vec![])),
        _ => Some((*r.pick(&[1000, 70000, 20_000_000, 2_000_000_000]), vec![])),
    }
}

/// DropHandle may not be inserted between an Open and its stream calls in a way that changes
/// the tokens; any position is fine because tokens are position-independent for Next/Finish.
fn first_non_op_after(_steps: &[Step], pos: usize) -> usize {
    pos
}

/// Family STREAM: call sequences over next/finish/state (including calls after the end and
/// repeated finish) against generated item sequences; direct, EntriesOnly and `search()`.
pub fn gen_stream(seed: u64) -> Scenario {
    let mut r = Rng::new(seed);
    let mut sc = Scenario::new("STREAM");
    sc.knobs = gen_knobs(&mut r, false);
    sc.knobs.yield_pm = 0;
    let timed_run = r.chance(1, 4);
    if timed_run {
        // delivery time must equal emission time for the timing model
        sc.knobs.net_delay_max_ms = 0;
    }
    let nclients = if r.chance(1, 4) { 2 } else { 1 };
    for c in 0..nclients {
        let mut cs = ClientScript::default();
        let episodes = 1 + r.usize(3);
        for ep in 0..episodes {
            let tok = format!("c{c}e{ep}");
            let max_items = *r.pick(&[0, 1, 3, 6, 12]);
            let timeout = if timed_run && r.chance(2, 3) { Some(*r.pick(&[10u64, 100])) } else { None };
            let mut plan = gen_items_plan(&mut r, &tok, max_items, true, if timeout.is_some() { &[0] } else { &[0, 0, 1, 4] });
            if let (Some(t), ReplyPlan::Items { items, done, .. }) = (timeout, &mut plan) {
                // at most one late position
                if r.chance(3, 4) {
                    let k = r.usize(items.len() + 1);
                    if k < items.len() {
                        items[k].gap_ms = 5 * t;
                    } else if let Some(d) = done {
                        d.gap_ms = 5 * t;
                    }
                }
            }
            let n_items = match &plan {
                ReplyPlan::Items { items, .. } => items.len(),
                _ => 0,
            };
            sc.plan.by_token.insert(tok.clone(), plan);
            let mods = Mods { timeout_ms: timeout, controls: gen_req_ctrls(&mut r, "q"), opts: None };
            match r.below(5) {
                0 if timeout.is_none() => {
                    cs.steps.push(Step::Op { token: tok.clone(), op: OpSpec::Search(simple_search(&tok, &mut r)), mods, cancel_after_polls: None });
                }
                k => {
                    let mut adapter = if k % 2 == 0 { Adapter::Direct } else { Adapter::EntriesOnly };
                    if timeout.is_none() && r.chance(1, 8) {
                        // a failing adapter of the caller's own: Error after its failure, whatever the server sent
                        adapter = Adapter::FailAfter(r.usize(n_items + 2) as u32);
                    }
                    let slot = ep;
                    // error episode: the server never finishes the search; the caller reads what there is, abandons the
                    // search through the stream's own handle and goes on calling: next() must fail, the state is Error
                    let err_reads = if timeout.is_none() && r.chance(1, 6) {
                        match sc.plan.by_token.get_mut(&tok) {
                            Some(ReplyPlan::Items { items, done, .. }) => {
                                *done = None;
                                if adapter == Adapter::EntriesOnly {
                                    while matches!(items.last(), Some(it) if !matches!(it.op, RespOp::Entry { .. })) {
                                        items.pop();
                                    }
                                    Some(items.iter().filter(|it| matches!(it.op, RespOp::Entry { .. })).count())
                                } else {
                                    Some(items.len())
                                }
                            }
                            _ => None,
                        }
                    } else {
                        None
                    };
                    cs.steps.push(Step::Open { token: tok.clone(), slot, search: simple_search(&tok, &mut r), adapter, mods });
                    let calls = r.usize(17);
                    // bias: often read exactly to the end first
                    let read_first = match err_reads {
                        Some(k) => k,
                        None => {
                            if r.chance(1, 2) {
                                n_items + 1
                            } else {
                                0
                            }
                        }
                    };
                    for _ in 0..read_first.min(16) {
                        cs.steps.push(Step::Next { slot, cancel_after_polls: None });
                    }
                    if err_reads.is_some() {
                        cs.steps.push(Step::StreamAbandon { slot });
                        sc.note = "abandon".into();
                    }
                    for _ in 0..calls.saturating_sub(read_first).max(1) {
                        match r.below(10) {
                            0..=4 => {
                                if adapter == Adapter::Direct && r.chance(1, 6) {
                                    // a next() future dropped while pending must not disturb the stream
                                    cs.steps.push(Step::Next { slot, cancel_after_polls: Some(r.below(3) as u32) });
                                }
                                cs.steps.push(Step::Next { slot, cancel_after_polls: None })
                            }
                            5..=6 => cs.steps.push(Step::State { slot }),
                            7..=8 => cs.steps.push(Step::Finish { slot }),
                            _ => {
                                if timeout.is_none() {
                                    cs.steps.push(Step::Sleep { ms: r.below(6) })
                                } else {
                                    cs.steps.push(Step::State { slot })
                                }
                            }
                        }
                    }
                    if r.chance(1, 2) {
                        cs.steps.push(Step::Finish { slot });
                        cs.steps.push(Step::State { slot });
                    }
                }
            }
        }
        // Hang-up shape (one untimed single-client run in six): the last stream is opened, the server sends everything
        // it has for it and - 497 ms of silence later - closes the connection; only then does the caller read. What
        // was delivered is still the stream's content: every item, the end, and the server's own final result.
        if nclients == 1 && !timed_run && r.chance(1, 6) {
            let last_open = cs.steps.iter().rposition(|s| matches!(s, Step::Open { .. }));
            if let Some(ix) = last_open {
                if let Step::Open { token, slot, adapter, .. } = cs.steps[ix].clone() {
                    let complete = matches!(sc.plan.by_token.get(&token), Some(ReplyPlan::Items { done: Some(_), .. }));
                    let n_items = match sc.plan.by_token.get(&token) {
                        Some(ReplyPlan::Items { items, .. }) => items.len(),
                        _ => 0,
                    };
                    if complete && matches!(adapter, Adapter::Direct | Adapter::EntriesOnly) {
                        // (this stream alone, over a network without delay: the server's idle timer runs from its last
                        // emission, not from the delivery - false alarm 21)
                        cs.steps.truncate(ix + 1);
                        cs.steps.drain(..ix);
                        sc.knobs.net_delay_max_ms = 0;
                        sc.plan.close_after_idle_ms = Some(497);
                        cs.steps.push(Step::Sleep { ms: 600 });
                        for _ in 0..=n_items {
                            cs.steps.push(Step::Next { slot, cancel_after_polls: None });
                        }
                        cs.steps.push(Step::State { slot });
                        cs.steps.push(Step::Finish { slot });
                        cs.steps.push(Step::State { slot });
                        sc.note = "hangup-before-read".into();
                    }
                }
            }
        }
        sc.clients.push(cs);
    }
    sc
}

/// Family LEAK: long histories of every lifecycle with quiescent checkpoints (barriers).
pub fn gen_leak(seed: u64) -> Scenario {
    let mut r = Rng::new(seed);
    let mut sc = Scenario::new("LEAK");
    sc.knobs = gen_knobs(&mut r, false);
    // timing model: delivery time = emission time
    sc.knobs.net_delay_max_ms = 0;
    if r.chance(1, 6) {
        // the peer stops reading for a while: requests queue up in (or block) the driver while callers time out
        sc.knobs.write_quota = 0;
        sc.knobs.write_pending_pm = 0;
        sc.knobs.write_stall = Some((r.usize(300), *r.pick(&[3, 20, 200])));
    }
    let nclients = 1 + r.usize(3);
    let rounds = 1 + r.usize(5);
    let mut scripts: Vec<ClientScript> = (0..nclients).map(|_| ClientScript::default()).collect();
    let mut late_tokens: Vec<(String, u64)> = vec![];
    // paging server for the paged lifecycles of this run: sometimes it never answers page `stall`
    let page_n = 3 + r.usize(8);
    let page_size = 1 + r.usize(3);
    let stall = if r.chance(1, 2) { Some(1 + r.usize(2)) } else { None };
    sc.plan.paging = Some(PagingModel {
        n: page_n,
        cap: 0,
        cookie_seed: r.next_u64(),
        empty_first_page: false,
        supports_paging: true,
        final_rc: 0,
        other_ctrls: vec![],
        page_delay_ms: 0,
        page_sizes: vec![],
        extra_empty_last_page: r.chance(1, 4),
        stall_at_page: stall,
        paged_ctrl_pos: None,
        constant_cookie: false,
    });
    let mut slot_ctr = vec![0usize; nclients];
    for round in 0..rounds {
        // optional in-flight abandon between client 0 and client 1
        // (the abandoner learns the victim's ID from the server's log: not while the peer has stopped reading)
        let inflight = nclients >= 2 && r.chance(1, 3) && sc.knobs.write_stall.is_none();
        for c in 0..nclients {
            let n = 1 + r.usize(5);
            if inflight && c == 0 {
                let tok = format!("r{round}c0x");
                let op = gen_single_op(&mut r, &tok);
                sc.plan.by_token.insert(tok.clone(), ReplyPlan::Silent);
                scripts[0].steps.push(Step::Op { token: tok, op, mods: Mods::default(), cancel_after_polls: None });
            }
            if inflight && c == 1 {
                scripts[1].steps.push(Step::Sleep { ms: 5 });
                scripts[1].steps.push(Step::Op {
                    token: format!("r{round}c1ab"),
                    op: OpSpec::Abandon(IdRef::Token(format!("r{round}c0x"))),
                    mods: Mods::default(),
                    cancel_after_polls: None,
                });
            }
            for k in 0..n {
                let tok = format!("r{round}c{c}k{k}");
                match r.below(100) {
                    0..=24 => {
                        // completed / failed single operation
                        let op = gen_single_op(&mut r, &tok);
                        let plan = gen_single_plan(&mut r, &op, &tok, &[0, 0, 1, 3], true);
                        sc.plan.by_token.insert(tok.clone(), plan);
                        // sometimes the caller drops the call while it is in flight; the server still answers
                        let cancel = if r.chance(1, 6) { Some(1 + r.below(3) as u32) } else { None };
                        scripts[c].steps.push(Step::Op { token: tok.clone(), op, mods: Mods::default(), cancel_after_polls: cancel });
                        if r.chance(1, 4) {
                            // abandon of a finished operation
                            scripts[c].steps.push(Step::Op {
                                token: format!("{tok}ab"),
                                op: OpSpec::Abandon(IdRef::Token(tok)),
                                mods: Mods::default(),
                                cancel_after_polls: None,
                            });
                        }
                    }
                    25..=39 => {
                        // timed-out single operation, late reply afterwards, sometimes abandoned
                        let op = gen_single_op(&mut r, &tok);
                        let t = *r.pick(&[5u64, 50]);
                        sc.plan.by_token.insert(tok.clone(), ReplyPlan::Silent);
                        scripts[c].steps.push(Step::Op { token: tok.clone(), op, mods: Mods { timeout_ms: Some(t), ..Default::default() }, cancel_after_polls: None });
                        if r.chance(1, 2) {
                            late_tokens.push((tok.clone(), t + 1 + r.below(30)));
                        }
                        if r.chance(1, 3) {
                            scripts[c].steps.push(Step::Op {
                                token: format!("{tok}ab"),
                                op: OpSpec::Abandon(IdRef::Token(tok)),
                                mods: Mods::default(),
                                cancel_after_polls: None,
                            });
                        }
                    }
                    40..=41 => {
                        // the start of a streaming search is dropped after a poll or two: either the request never
                        // leaves the client (and nothing may remain of it) or it does and nobody ever finishes the search
                        let plan = gen_items_plan(&mut r, &tok, 2, true, &[0, 1]);
                        sc.plan.by_token.insert(tok.clone(), plan);
                        scripts[c].steps.push(Step::OpenDropped { token: tok.clone(), search: simple_search(&tok, &mut r), polls: 1 + r.below(2) as u32 });
                    }
                    42..=46 => {
                        // search()
                        let plan = gen_items_plan(&mut r, &tok, 4, true, &[0, 0, 1]);
                        sc.plan.by_token.insert(tok.clone(), plan);
                        scripts[c].steps.push(Step::Op { token: tok.clone(), op: OpSpec::Search(simple_search(&tok, &mut r)), mods: Mods::default(), cancel_after_polls: None });
                    }
                    47..=50 => {
                        // search() with a per-item timeout that expires between items: the call fails and
                        // nobody calls finish() on the stream inside it
                        let t = 10u64;
                        let mut plan = gen_items_plan(&mut r, &tok, 3, true, &[0]);
                        if let ReplyPlan::Items { items, done, .. } = &mut plan {
                            let k = r.usize(items.len() + 1);
                            if k < items.len() {
                                items[k].gap_ms = 5 * t;
                            } else if let Some(d) = done {
                                d.gap_ms = 5 * t;
                            }
                            if r.chance(1, 3) {
                                // the server stalls for good
                                items.truncate(k);
                                *done = None;
                            }
                        }
                        sc.plan.by_token.insert(tok.clone(), plan);
                        scripts[c].steps.push(Step::Op {
                            token: tok.clone(),
                            op: OpSpec::Search(simple_search(&tok, &mut r)),
                            mods: Mods { timeout_ms: Some(t), ..Default::default() },
                            cancel_after_polls: None,
                        });
                    }
                    51..=54 => {
                        // paged search: read to the end, or (stalling server) time out on a later page; then finish
                        sc.plan.by_token.insert(tok.clone(), ReplyPlan::Paged);
                        let slot = slot_ctr[c];
                        slot_ctr[c] += 1;
                        let adapter = *r.pick(&[Adapter::Paged(page_size as i32), Adapter::EntriesOnlyPaged(page_size as i32), Adapter::PagedEntriesOnly(page_size as i32)]);
                        let timeout = Some(10u64);
                        scripts[c].steps.push(Step::Open { token: tok.clone(), slot, search: simple_search(&tok, &mut r), adapter, mods: Mods { timeout_ms: timeout, ..Default::default() } });
                        let available = match stall {
                            Some(j) => (page_size * j).min(page_n),
                            None => page_n,
                        };
                        let reads = if r.chance(3, 4) { available + 1 } else { r.usize(available + 1) };
                        for _ in 0..reads {
                            scripts[c].steps.push(Step::Next { slot, cancel_after_polls: None });
                        }
                        scripts[c].steps.push(Step::Finish { slot });
                        if r.chance(1, 3) {
                            scripts[c].steps.push(Step::Op {
                                token: format!("{tok}ab"),
                                op: OpSpec::Abandon(IdRef::Token(tok)),
                                mods: Mods::default(),
                                cancel_after_polls: None,
                            });
                        }
                    }
                    55..=89 => {
                        // stream: direct or adapted; read to the end or finished early; finished once or twice;
                        // sometimes the server stalls after the items (no SearchResultDone ever)
                        let stalls = r.chance(1, 4);
                        let plan = gen_items_plan(&mut r, &tok, 4, !stalls, &[0, 0, 1]);
                        let mut adapter = if r.chance(1, 2) { Adapter::Direct } else { Adapter::EntriesOnly };
                        if r.chance(1, 5) {
                            // an adapter that fails after a few items: the stream is in the Error state when it is finished
                            let n = match &plan {
                                ReplyPlan::Items { items, .. } => items.len(),
                                _ => 0,
                            };
                            adapter = Adapter::FailAfter(r.usize(n + 1) as u32);
                        }
                        // number of next() calls that cannot block: for EntriesOnly only entries count
                        let n_items = match &plan {
                            ReplyPlan::Items { items, .. } => {
                                if adapter == Adapter::EntriesOnly && stalls {
                                    items.iter().filter(|i| matches!(i.op, RespOp::Entry { .. })).count()
                                } else {
                                    items.len()
                                }
                            }
                            _ => 0,
                        };
                        sc.plan.by_token.insert(tok.clone(), plan);
                        let slot = slot_ctr[c];
                        slot_ctr[c] += 1;
                        scripts[c].steps.push(Step::Open { token: tok.clone(), slot, search: simple_search(&tok, &mut r), adapter, mods: Mods::default() });
                        let reads = if stalls {
                            // an entry followed only by references would make EntriesOnly wait for more: stay clear of the tail
                            if adapter == Adapter::EntriesOnly { r.usize(n_items + 1).saturating_sub(0).min(n_items) } else { r.usize(n_items + 1) }
                        } else if r.chance(1, 2) {
                            n_items + 1
                        } else {
                            r.usize(n_items + 1)
                        };
                        for _ in 0..reads {
                            scripts[c].steps.push(Step::Next { slot, cancel_after_polls: None });
                        }
                        if r.chance(1, 4) {
                            // the documented way to stop a search early: abandon it through the stream's own handle
                            scripts[c].steps.push(Step::StreamAbandon { slot });
                        }
                        scripts[c].steps.push(Step::Finish { slot });
                        if r.chance(1, 4) {
                            scripts[c].steps.push(Step::Finish { slot });
                        }
                        if r.chance(1, 4) {
                            scripts[c].steps.push(Step::Op {
                                token: format!("{tok}ab"),
                                op: OpSpec::Abandon(IdRef::Token(tok)),
                                mods: Mods::default(),
                                cancel_after_polls: None,
                            });
                        }
                        if r.chance(1, 2) {
                            scripts[c].steps.push(Step::DropStream { slot });
                        }
                    }
                    _ => {
                        // timed-out stream (per-item timeout), then finish
                        let t = 10u64;
                        let mut plan = gen_items_plan(&mut r, &tok, 3, true, &[0]);
                        if let ReplyPlan::Items { items, done, .. } = &mut plan {
                            let k = r.usize(items.len() + 1);
                            if k < items.len() {
                                items[k].gap_ms = 5 * t;
                            } else if let Some(d) = done {
                                d.gap_ms = 5 * t;
                            }
                        }
                        sc.plan.by_token.insert(tok.clone(), plan);
                        let slot = slot_ctr[c];
                        slot_ctr[c] += 1;
                        let adapter = if r.chance(1, 2) { Adapter::Direct } else { Adapter::EntriesOnly };
                        scripts[c].steps.push(Step::Open {
                            token: tok.clone(),
                            slot,
                            search: simple_search(&tok, &mut r),
                            adapter,
                            mods: Mods { timeout_ms: Some(t), ..Default::default() },
                        });
                        for _ in 0..5 {
                            scripts[c].steps.push(Step::Next { slot, cancel_after_polls: None });
                        }
                        scripts[c].steps.push(Step::Finish { slot });
                    }
                }
            }
            scripts[c].steps.push(Step::Barrier);
        }
    }
    for (tok, after) in late_tokens {
        sc.plan.unsolicited.push(Unsol { at_ms: after, id: UnsolId::OfToken(tok.clone()), op: RespOp::Result { tag: 7, res: gen_result(&mut r, &format!("late:{tok}")) }, ctrls: None });
    }
    let toks: Vec<String> = vec![];
    sc.plan.unsolicited.extend(gen_unsolicited(&mut r, 100, &toks));
    sc.clients = scripts;
    sc.id_table = gen_id_start(&mut r);
    if let Some((_, phantoms)) = &mut sc.id_table {
        // sometimes a few phantom IDs count as in use for the whole run
        if r.chance(1, 3) {
            for _ in 0..1 + r.usize(3) {
                phantoms.push(1 + r.below(2147483646) as i32);
            }
        }
    }
    let start = sc.id_table.as_ref().map(|t| t.0 as i64).unwrap_or(0);
    keep_ids_apart(&mut sc, start);
    sc
}

pub const ID_MAX: i32 = 2147483647;

/// Family IDS: the ID table is pre-positioned near the upper end with arbitrary IDs in use;
/// many short operations from several handles; yield between allocation and enqueue.
pub fn gen_ids(seed: u64) -> Scenario {
    let mut r = Rng::new(seed);
    let mut sc = Scenario::new("IDS");
    sc.knobs = gen_knobs(&mut r, false);
    sc.knobs.yield_pm = *r.pick(&[0, 300, 700, 1000, 1000]);
    sc.knobs.net_delay_max_ms = *r.pick(&[0, 0, 1, 3]);
    let last: i32 = match r.below(10) {
        0 => 0,
        1 => r.below(ID_MAX as u64) as i32,
        2 => ID_MAX,
        _ => ID_MAX - r.below(65) as i32,
    };
    let mut ph: std::collections::BTreeSet<i32> = Default::default();
    if r.chance(1, 2) {
        ph.insert(1);
    }
    if r.chance(1, 2) {
        ph.insert(ID_MAX);
    }
    if r.chance(1, 2) {
        for i in 1..=r.below(20) as i32 {
            ph.insert(i);
        }
    }
    if r.chance(1, 2) {
        for i in 1..=r.below(6) as i64 {
            let x = last as i64 + i;
            if x <= ID_MAX as i64 {
                ph.insert(x as i32);
            }
        }
    }
    for _ in 0..r.usize(8) {
        ph.insert(1 + r.below(40) as i32);
    }
    for _ in 0..r.usize(4) {
        ph.insert(ID_MAX - r.below(70) as i32);
    }
    while ph.len() > 40 {
        let x = *ph.iter().next().unwrap();
        ph.remove(&x);
    }
    sc.id_table = Some((last, ph.into_iter().collect()));
    let nclients = 2 + r.usize(5);
    let mut budget = 60usize;
    for c in 0..nclients {
        let mut cs = ClientScript { steps: vec![], start_delay_ms: *r.pick(&[0, 0, 0, 1, 2]) };
        let n = (3 + r.usize(8)).min(budget);
        budget -= n;
        let mut held: Option<(String, usize)> = None;
        let mut slot = 0;
        for k in 0..n {
            let tok = format!("c{c}k{k}");
            match r.below(20) {
                0..=12 => {
                    let op = gen_single_op(&mut r, &tok);
                    let plan = gen_single_plan(&mut r, &op, &tok, &[0, 0, 0, 1, 2, 5], false);
                    sc.plan.by_token.insert(tok.clone(), plan);
                    cs.steps.push(Step::Op { token: tok, op, mods: Mods::default(), cancel_after_polls: None });
                }
                13..=14 => {
                    let plan = gen_items_plan(&mut r, &tok, 2, true, &[0, 1]);
                    sc.plan.by_token.insert(tok.clone(), plan);
                    cs.steps.push(Step::Op { token: tok.clone(), op: OpSpec::Search(simple_search(&tok, &mut r)), mods: Mods::default(), cancel_after_polls: None });
                }
                15..=16 if held.is_none() => {
                    // a search that stays outstanding: no items, no done, the stream is held open
                    // (it may already have delivered items: a search is outstanding until SearchResultDone)
                    let n_items = r.usize(3);
                    let items = (0..n_items).map(|i| ItemPlan { gap_ms: 0, op: gen_item(&mut r, &format!("{tok}:i{i}")), ctrls: None }).collect();
                    sc.plan.by_token.insert(tok.clone(), ReplyPlan::Items { items, done: None, extra: vec![] });
                    cs.steps.push(Step::Open { token: tok.clone(), slot, search: simple_search(&tok, &mut r), adapter: Adapter::Direct, mods: Mods::default() });
                    // everything the server sends for it is read at once: nothing of it may still be in transit
                    // when the stream is finished, or it would be late traffic for a recycled ID
                    for _ in 0..n_items {
                        cs.steps.push(Step::Next { slot, cancel_after_polls: None });
                    }
                    held = Some((tok, slot));
                    slot += 1;
                }
                17..=18 => {
                    if let Some((t, _)) = &held {
                        // the state a long history of allocations would produce: the counter is about to reach an ID still in use
                        cs.steps.push(Step::SetIdCounterBefore { token: t.clone(), back: 1 + r.below(4) as i32 });
                    } else {
                        cs.steps.push(Step::Sleep { ms: r.below(3) });
                    }
                }
                _ => cs.steps.push(Step::Op { token: tok, op: OpSpec::Abandon(IdRef::Raw(123_456_789)), mods: Mods::default(), cancel_after_polls: None }),
            }
        }
        if let Some((_, s)) = held {
            cs.steps.push(Step::Finish { slot: s });
        }
        sc.clients.push(cs);
    }
    // Sometimes: a search that was read to its end but is not finished yet still owns its ID (the caller has not
    // released it); a stray duplicate of its SearchResultDone must not free that ID. If it did, the operation
    // that is given the ID next would lose its route when the stream is finished at last.
    if r.chance(1, 5) {
        let c = sc.clients.len();
        let stok = format!("d{c}");
        let k = r.usize(3);
        let items = (0..k).map(|i| ItemPlan { gap_ms: 0, op: gen_item(&mut r, &format!("{stok}:i{i}")), ctrls: None }).collect();
        let done = DonePlan { gap_ms: 0, res: gen_result(&mut r, &format!("{stok}:done")), ctrls: None };
        let dup = Extra { after_ms: 1, op: RespOp::Result { tag: 5, res: gen_result(&mut r, &format!("{stok}:dup")) }, ctrls: None };
        sc.plan.by_token.insert(stok.clone(), ReplyPlan::Items { items, done: Some(done), extra: vec![dup] });
        let mut a = ClientScript::default();
        a.steps.push(Step::Open { token: stok.clone(), slot: 0, search: simple_search(&stok, &mut r), adapter: Adapter::Direct, mods: Mods::default() });
        for _ in 0..=k {
            a.steps.push(Step::Next { slot: 0, cancel_after_polls: None });
        }
        // Variant: the stream is finished at once (its ID is free again) and finished a second time later, while
        // the operation that was given the ID meanwhile is in flight: the second finish() must not touch anything.
        let double_finish = r.chance(1, 2);
        if double_finish {
            if let Some(ReplyPlan::Items { extra, .. }) = sc.plan.by_token.get_mut(&stok) {
                extra.clear();
            }
            a.steps.push(Step::Finish { slot: 0 });
        }
        a.steps.push(Step::Sleep { ms: 20 });
        a.steps.push(Step::SetIdCounterBefore { token: stok.clone(), back: 1 });
        a.steps.push(Step::Sleep { ms: 20 });
        a.steps.push(Step::Finish { slot: 0 });
        sc.clients.push(a);
        let ptok = format!("p{c}");
        let op = gen_single_op(&mut r, &ptok);
        let mut plan = gen_single_plan(&mut r, &op, &ptok, &[0], false);
        if let ReplyPlan::Single { after_ms, .. } = &mut plan {
            *after_ms = 60;
        }
        sc.plan.by_token.insert(ptok.clone(), plan);
        sc.clients.push(ClientScript { steps: vec![Step::Op { token: ptok, op, mods: Mods::default(), cancel_after_polls: None }], start_delay_ms: 25 });
        // the duplicate must have arrived long before the stream is finished, or it would itself be late traffic
        // for a recycled ID: no network delay in these runs
        sc.knobs.net_delay_max_ms = 0;
    }
    sc
}

/// Delay choices around a timeout value.
fn around(r: &mut Rng, t: u64) -> u64 {
    match r.below(9) {
        0 => 0,
        1 => t / 2,
        2 => t.saturating_sub(1),
        3 => t,
        4 => t + 1,
        5 => 2 * t,
        6 => 3 * t,
        7 => r.below(t + 1),
        _ => t + r.below(2 * t + 1),
    }
}

/// Family TIME: timed and untimed operations mixed, replies before / at / after deadlines,
/// item gaps around the per-item timeout. Writes are accepted at once.
pub fn gen_time(seed: u64) -> Scenario {
    let mut r = Rng::new(seed);
    let mut sc = Scenario::new("TIME");
    sc.knobs = gen_knobs(&mut r, false);
    sc.knobs.write_quota = 0;
    sc.knobs.write_pending_pm = 0;
    sc.knobs.net_delay_max_ms = *r.pick(&[0, 0, 1, 3]);
    if r.chance(1, 5) {
        // the peer stops reading for a while: requests queue up in the driver, deadlines keep running
        sc.knobs.write_stall = Some((r.usize(200), *r.pick(&[3, 20, 200, 2000])));
    }
    let page_n = 3 + r.usize(6);
    let page_size = 1 + r.usize(3);
    let stall = if r.chance(2, 3) { Some(1 + r.usize(2)) } else { None };
    sc.plan.paging = Some(PagingModel {
        n: page_n,
        cap: 0,
        cookie_seed: r.next_u64(),
        empty_first_page: false,
        supports_paging: true,
        final_rc: 0,
        other_ctrls: vec![],
        page_delay_ms: 0,
        page_sizes: vec![],
        extra_empty_last_page: false,
        stall_at_page: stall,
        paged_ctrl_pos: None,
        constant_cookie: false,
    });
    let nclients = 1 + r.usize(3);
    for c in 0..nclients {
        let mut cs = ClientScript { steps: vec![], start_delay_ms: *r.pick(&[0, 0, 1, 7]) };
        let n = 1 + r.usize(6);
        let mut slot = 0usize;
        for k in 0..n {
            let tok = format!("c{c}k{k}");
            let t = *r.pick(&[1u64, 2, 5, 10, 50, 100, 1000, 60_000]);
            let timed = r.chance(2, 3);
            // now and then "practically no timeout": the largest duration there is
            let huge = timed && r.chance(1, 15);
            let timeout = if huge { Some(u64::MAX) } else if timed { Some(t) } else { None };
            match r.below(11) {
                10 => {
                    // paged search with a per-item timeout; the server may stall on a later page
                    sc.plan.by_token.insert(tok.clone(), ReplyPlan::Paged);
                    let adapter = *r.pick(&[Adapter::Paged(page_size as i32), Adapter::EntriesOnlyPaged(page_size as i32)]);
                    cs.steps.push(Step::Open { token: tok.clone(), slot, search: simple_search(&tok, &mut r), adapter, mods: Mods { timeout_ms: Some(t), controls: None, opts: None } });
                    let available = match stall {
                        Some(j) => (page_size * j).min(page_n),
                        None => page_n,
                    };
                    for _ in 0..available + 1 {
                        cs.steps.push(Step::Next { slot, cancel_after_polls: None });
                    }
                    cs.steps.push(Step::Finish { slot });
                    slot += 1;
                }
                0..=4 => {
                    if r.chance(1, 6) {
                        // a timed call that is refused before anything is sent: its timeout must not reach the next call
                        let rop = if r.chance(1, 2) {
                            OpSpec::Add { dn: format!("cn=refused,{tok}"), attrs: vec![(b"cn".to_vec(), vec![])] }
                        } else {
                            OpSpec::Modify { dn: format!("cn=refused,{tok}"), mods: vec![ModSpec::Add(b"cn".to_vec(), vec![])] }
                        };
                        cs.steps.push(Step::Op { token: format!("refused-{tok}"), op: rop, mods: Mods { timeout_ms: Some(t), controls: None, opts: None }, cancel_after_polls: None });
                    }
                    let op = gen_single_op(&mut r, &tok);
                    let mut plan = gen_single_plan(&mut r, &op, &tok, &[0], false);
                    if let ReplyPlan::Single { after_ms, .. } = &mut plan {
                        *after_ms = around(&mut r, t);
                    }
                    if timed && !huge && r.chance(1, 5) {
                        plan = ReplyPlan::Silent;
                    }
                    sc.plan.by_token.insert(tok.clone(), plan);
                    cs.steps.push(Step::Op { token: tok, op, mods: Mods { timeout_ms: timeout, controls: None, opts: None }, cancel_after_polls: None });
                }
                5..=6 => {
                    let mut plan = gen_items_plan(&mut r, &tok, 5, true, &[0]);
                    if let ReplyPlan::Items { items, done, .. } = &mut plan {
                        for it in items.iter_mut() {
                            it.gap_ms = if r.chance(1, 2) { 0 } else { around(&mut r, t) };
                        }
                        if let Some(d) = done {
                            d.gap_ms = if r.chance(1, 2) { 0 } else { around(&mut r, t) };
                        }
                        if timed && !huge && r.chance(1, 6) {
                            *done = None;
                        }
                    }
                    sc.plan.by_token.insert(tok.clone(), plan);
                    cs.steps.push(Step::Op {
                        token: tok.clone(),
                        op: OpSpec::Search(simple_search(&tok, &mut r)),
                        mods: Mods { timeout_ms: timeout, controls: None, opts: None },
                        cancel_after_polls: None,
                    });
                }
                _ => {
                    let mut plan = gen_items_plan(&mut r, &tok, 5, true, &[0]);
                    let mut n_items = 0;
                    if let ReplyPlan::Items { items, done, .. } = &mut plan {
                        for it in items.iter_mut() {
                            it.gap_ms = if r.chance(1, 2) { 0 } else { around(&mut r, t) };
                        }
                        if let Some(d) = done {
                            d.gap_ms = if r.chance(1, 2) { 0 } else { around(&mut r, t) };
                        }
                        if timed && !huge && r.chance(1, 6) {
                            *done = None;
                        }
                        n_items = items.len();
                    }
                    sc.plan.by_token.insert(tok.clone(), plan);
                    let adapter = if r.chance(1, 2) { Adapter::Direct } else { Adapter::EntriesOnly };
                    cs.steps.push(Step::Open { token: tok.clone(), slot, search: simple_search(&tok, &mut r), adapter, mods: Mods { timeout_ms: timeout, controls: None, opts: None } });
                    // untimed streams must not block: read at most to the end
                    let reads = if timed { n_items + 1 + r.usize(2) } else { n_items + 1 };
                    for _ in 0..reads {
                        if r.chance(1, 6) {
                            cs.steps.push(Step::Sleep { ms: around(&mut r, t).min(5_000) });
                        }
                        cs.steps.push(Step::Next { slot, cancel_after_polls: None });
                    }
                    cs.steps.push(Step::Finish { slot });
                    slot += 1;
                }
            }
            if r.chance(1, 8) {
                cs.steps.push(Step::Barrier);
            }
        }
        cs.steps.push(Step::Barrier);
        sc.clients.push(cs);
    }
    // barriers must be matched across clients: give every client the same number
    let maxb = sc.clients.iter().map(|c| c.steps.iter().filter(|s| matches!(s, Step::Barrier)).count()).max().unwrap_or(0);
    for c in sc.clients.iter_mut() {
        let have = c.steps.iter().filter(|s| matches!(s, Step::Barrier)).count();
        for _ in have..maxb {
            c.steps.push(Step::Barrier);
        }
    }
    sc.id_table = gen_id_start(&mut r);
    sc
}

/// Base scenario of family FAULT: a small MUX-like exchange without cancellations and timeouts,
/// plus a "late" client that issues one operation long after everything else.
pub fn gen_fault_base(seed: u64) -> Scenario {
    let mut r = Rng::new(seed);
    let mut sc = Scenario::new("FAULT");
    sc.knobs = gen_knobs(&mut r, false);
    sc.knobs.net_delay_max_ms = *r.pick(&[0, 0, 1, 2]);
    if let Chunking::Random { max } = &mut sc.knobs.chunking {
        *max = (*max).max(3);
    }
    sc.knobs.max_read = *r.pick(&[0, 0, 0, 7, 64, 4096]);
    sc.knobs.write_quota = *r.pick(&[0, 0, 0, 7, 64]);
    let nclients = 1 + r.usize(3);
    for c in 0..nclients {
        let mut cs = ClientScript { steps: vec![], start_delay_ms: *r.pick(&[0, 0, 1]) };
        let n = 1 + r.usize(4);
        let mut slot = 0;
        for _ in 0..n {
            let tok = format!("c{c}s{}", cs.steps.len());
            match r.below(10) {
                0..=4 => {
                    let op = gen_single_op(&mut r, &tok);
                    let plan = gen_single_plan(&mut r, &op, &tok, &[0, 0, 1, 3], false);
                    sc.plan.by_token.insert(tok.clone(), plan);
                    cs.steps.push(Step::Op { token: tok, op, mods: Mods::default(), cancel_after_polls: None });
                }
                5..=6 => {
                    let plan = gen_items_plan(&mut r, &tok, 3, true, &[0, 0, 1]);
                    sc.plan.by_token.insert(tok.clone(), plan);
                    cs.steps.push(Step::Op { token: tok.clone(), op: OpSpec::Search(simple_search(&tok, &mut r)), mods: Mods::default(), cancel_after_polls: None });
                }
                _ => {
                    let plan = gen_items_plan(&mut r, &tok, 3, true, &[0, 0, 1]);
                    let n_items = match &plan {
                        ReplyPlan::Items { items, .. } => items.len(),
                        _ => 0,
                    };
                    sc.plan.by_token.insert(tok.clone(), plan);
                    let adapter = if r.chance(1, 2) { Adapter::Direct } else { Adapter::EntriesOnly };
                    cs.steps.push(Step::Open { token: tok.clone(), slot, search: simple_search(&tok, &mut r), adapter, mods: Mods::default() });
                    let reads = if r.chance(2, 3) { n_items + 1 } else { r.usize(n_items + 1) };
                    for _ in 0..reads {
                        cs.steps.push(Step::Next { slot, cancel_after_polls: None });
                    }
                    if r.chance(3, 4) {
                        cs.steps.push(Step::Finish { slot });
                    }
                    slot += 1;
                }
            }
        }
        sc.clients.push(cs);
    }
    // the late client
    let op = OpSpec::SimpleBind { dn: "late".into(), pw: "x".into() };
    sc.plan.by_token.insert("late".into(), ReplyPlan::Single { after_ms: 0, res: ResultSpec::simple(0, "late:reply"), ctrls: None, extra: vec![] });
    sc.clients.push(ClientScript { steps: vec![Step::Sleep { ms: 10_000 }, Step::Op { token: "late".into(), op, mods: Mods::default(), cancel_after_polls: None }], start_delay_ms: 0 });
    sc
}

/// Base scenario of family FRAME: several operations issued at t=0, all answered in one burst
/// at t=5ms, so that the response bytes form one contiguous run the network can partition.
pub fn gen_frame_base(seed: u64) -> Scenario {
    let mut r = Rng::new(seed);
    let mut sc = Scenario::new("FRAME");
    sc.knobs = Knobs { lenform_extra_max: *r.pick(&[0, 0, 1, 3]), lenform_seed: r.next_u64(), ..Knobs::default() };
    let nclients = 1 + r.usize(4);
    let big = r.chance(1, 5);
    let big_client = r.usize(nclients);
    // one run in six: a search answered with 60-200 small entries in one burst (more messages decodable
    // back to back than any fixed per-turn budget of the driver)
    let many = !big && r.chance(1, 6);
    let many_client = r.usize(nclients);
    // one run in four: notices with message ID 0 inside the burst (scheduled for the same instant)
    if r.chance(1, 4) {
        for i in 0..1 + r.usize(2) {
            let label = format!("notice{i}");
            sc.plan.unsolicited.push(Unsol {
                at_ms: 5,
                id: UnsolId::Zero,
                op: RespOp::Result { tag: 24, res: ResultSpec { exop_name: Some("1.3.6.1.4.1.1466.20036".into()), ..gen_result(&mut r, &label) } },
                ctrls: None,
            });
        }
    }
    for c in 0..nclients {
        let mut cs = ClientScript::default();
        let tok = format!("c{c}s0");
        match r.below(3) {
            0 => {
                let op = gen_single_op(&mut r, &tok);
                let plan = gen_single_plan(&mut r, &op, &tok, &[5], false);
                sc.plan.by_token.insert(tok.clone(), plan);
                cs.steps.push(Step::Op { token: tok, op, mods: Mods::default(), cancel_after_polls: None });
            }
            k => {
                let mut plan = gen_items_plan(&mut r, &tok, 4, true, &[0]);
                let mut n_items = 0;
                if let ReplyPlan::Items { items, done, .. } = &mut plan {
                    if big && c == big_client {
                        let size = *r.pick(&[3000usize, 9000, 20_000, 65_000, 66_000, 70_000, 131_000, 200_000]);
                        items.insert(0, ItemPlan { gap_ms: 0, op: RespOp::Entry { dn: format!("cn={tok}:big"), attrs: vec![("blob".into(), vec![r.bytes(size)])] }, ctrls: None });
                    }
                    if many && c == many_client {
                        // one such run in three: more than a thousand (beyond any plausible fixed queue bound
                        // between the driver and the stream: the consumer does not run during the burst)
                        let n = if r.chance(1, 3) { 1100 + r.usize(1500) } else { 60 + r.usize(141) };
                        for i in 0..n {
                            items.push(ItemPlan { gap_ms: 0, op: RespOp::Entry { dn: format!("cn={i:04},{tok}"), attrs: vec![] }, ctrls: None });
                        }
                    }
                    if let Some(f) = items.first_mut() {
                        f.gap_ms = 5;
                    } else if let Some(d) = done {
                        d.gap_ms = 5;
                    }
                    n_items = items.len();
                }
                sc.plan.by_token.insert(tok.clone(), plan);
                if k == 1 {
                    cs.steps.push(Step::Op { token: tok.clone(), op: OpSpec::Search(simple_search(&tok, &mut r)), mods: Mods::default(), cancel_after_polls: None });
                } else {
                    cs.steps.push(Step::Open { token: tok.clone(), slot: 0, search: simple_search(&tok, &mut r), adapter: if r.chance(1, 2) { Adapter::Direct } else { Adapter::EntriesOnly }, mods: Mods::default() });
                    for _ in 0..=n_items {
                        cs.steps.push(Step::Next { slot: 0, cancel_after_polls: None });
                    }
                    cs.steps.push(Step::Finish { slot: 0 });
                }
            }
        }
        // a second, later operation per client: its reply must not be eaten by the first burst
        if r.chance(1, 2) {
            let tok = format!("c{c}s9");
            let op = gen_single_op(&mut r, &tok);
            let plan = gen_single_plan(&mut r, &op, &tok, &[0, 2], false);
            sc.plan.by_token.insert(tok.clone(), plan);
            cs.steps.push(Step::Op { token: tok, op, mods: Mods::default(), cancel_after_polls: None });
        }
        sc.clients.push(cs);
    }
    sc
}

// ---------------------------------------------------------------------------------------------
// SEQ: one handle, every operation kind with generated arguments and modifiers
// ---------------------------------------------------------------------------------------------

fn gen_attr_name(r: &mut Rng) -> String {
    match r.below(6) {
        0 => format!("{}.{}.{}", r.below(3), r.below(40), r.below(1000)),
        1 => format!("cn;lang-{}", (b'a' + r.below(26) as u8) as char),
        _ => {
            let n = 1 + r.usize(8);
            let mut s = String::new();
            s.push((b'a' + r.below(26) as u8) as char);
            for _ in 1..n {
                s.push(*r.pick(&['a', 'b', 'c', 'x', 'y', 'z', 'A', 'Q', '0', '7', '-']));
            }
            s
        }
    }
}

fn gen_filter_value(r: &mut Rng) -> Bytes {
    // never empty for substring parts; callers handle emptiness
    let mut v = gen_bytes(r, 12);
    if v.is_empty() {
        v.push(b'v');
    }
    v
}

pub fn gen_filter(r: &mut Rng, depth: u32) -> Filter {
    let k = if depth >= 3 { 3 + r.below(7) } else { r.below(10) };
    let a = |r: &mut Rng| gen_attr_name(r).into_bytes();
    match k {
        0 => Filter::And((0..r.usize(4)).map(|_| gen_filter(r, depth + 1)).collect()),
        1 => Filter::Or((0..r.usize(4)).map(|_| gen_filter(r, depth + 1)).collect()),
        2 => Filter::Not(Box::new(gen_filter(r, depth + 1))),
        3 => Filter::Eq(a(r), if r.chance(1, 8) { vec![] } else { gen_filter_value(r) }),
        4 => {
            let initial = if r.chance(1, 2) { Some(gen_filter_value(r)) } else { None };
            let any: Vec<Bytes> = (0..r.usize(3)).map(|_| gen_filter_value(r)).collect();
            let mut fin = if r.chance(1, 2) { Some(gen_filter_value(r)) } else { None };
            if initial.is_none() && any.is_empty() && fin.is_none() {
                fin = Some(gen_filter_value(r));
            }
            Filter::Sub { attr: a(r), initial, any, fin }
        }
        5 => Filter::Ge(a(r), gen_filter_value(r)),
        6 => Filter::Le(a(r), gen_filter_value(r)),
        7 => Filter::Present(a(r)),
        8 => Filter::Approx(a(r), gen_filter_value(r)),
        _ => {
            let rule = if r.chance(1, 2) { Some(format!("1.2.840.113556.1.4.{}", r.below(2000)).into_bytes()) } else { None };
            let attr = if rule.is_none() || r.chance(1, 2) { Some(a(r)) } else { None };
            Filter::Ext { rule, attr, value: gen_filter_value(r), dn: r.chance(1, 3) }
        }
    }
}

pub fn gen_search_spec(r: &mut Rng, base: String) -> SearchSpec {
    let f = gen_filter(r, 0);
    let mut s = String::new();
    crate::msg::render_filter(&f, r.below(3) as u8, &mut s);
    let nattrs = if r.chance(1, 20) { 50 } else { r.usize(5) };
    SearchSpec { base, scope: r.below(3) as u8, filter_str: s, filter: Some(f), attrs: (0..nattrs).map(|_| if r.chance(1, 5) { gen_string(r, 6) } else { gen_attr_name(r) }).collect() }
}

fn gen_vals(r: &mut Rng, allow_empty: bool) -> Vec<Bytes> {
    let n = if allow_empty { r.usize(5) } else { 1 + r.usize(4) };
    let mut v: Vec<Bytes> = (0..n).map(|_| if r.chance(1, 60) { r.bytes(20_000) } else { gen_bytes(r, 16) }).collect();
    if r.chance(1, 6) && !v.is_empty() {
        // duplicate values collapse in a set
        let d = v[0].clone();
        v.push(d);
    }
    v
}

fn gen_dn(r: &mut Rng) -> String {
    match r.below(8) {
        0 => String::new(),
        1 => gen_string(r, 200),
        2 => format!("cn={},dc=example,dc=org", gen_string(r, 10)),
        _ => format!("uid={},ou=p", r.below(100000)),
    }
}

pub fn gen_rich_op(r: &mut Rng) -> OpSpec {
    match r.below(11) {
        0 => OpSpec::SimpleBind { dn: gen_dn(r), pw: gen_string(r, 12) },
        1 => OpSpec::SaslExternal,
        2 | 3 => {
            let base = gen_dn(r);
            OpSpec::Search(gen_search_spec(r, base))
        }
        4 => OpSpec::Add { dn: gen_dn(r), attrs: (0..r.usize(5)).map(|_| (gen_attr_name(r).into_bytes(), gen_vals(r, false))).collect() },
        5 => OpSpec::Compare { dn: gen_dn(r), attr: gen_attr_name(r), val: gen_bytes(r, 20) },
        6 => OpSpec::Delete { dn: gen_dn(r) },
        7 => OpSpec::Modify {
            dn: gen_dn(r),
            mods: (0..r.usize(5))
                .map(|_| {
                    let a = gen_attr_name(r).into_bytes();
                    match r.below(4) {
                        0 => ModSpec::Add(a, gen_vals(r, false)),
                        1 => ModSpec::Delete(a, gen_vals(r, true)),
                        2 => ModSpec::Replace(a, gen_vals(r, true)),
                        _ => ModSpec::Increment(a, format!("{}", r.below(1000)).into_bytes()),
                    }
                })
                .collect(),
        },
        8 => OpSpec::ModifyDn { dn: gen_dn(r), rdn: format!("cn={}", gen_string(r, 8)), delete_old: r.chance(1, 2), new_sup: if r.chance(1, 2) { Some(gen_dn(r)) } else { None } },
        9 => OpSpec::Extended {
            oid: gen_oid(r),
            val: match r.below(3) {
                0 => None,
                1 => Some(vec![]),
                _ => Some(gen_bytes(r, 40)),
            },
        },
        _ => OpSpec::Abandon(IdRef::Raw(1 + r.below(2147483646) as i32)),
    }
}

pub fn gen_rich_result(r: &mut Rng, op: &OpSpec) -> (ResultSpec, Option<Vec<Ctl>>) {
    let rc = match r.below(4) {
        0 => 0,
        1 => r.below(124) as u32,
        2 => *r.pick(RESULT_CODES),
        _ => {
            if r.chance(1, 4) {
                // upper half of the 32-bit range (never the very top, which the model keeps as a marker)
                2147483648 + r.below(2147483647) as u32
            } else {
                r.below(2147483648) as u32
            }
        }
    };
    // now and then a code that does not fit 32 bits at all: whatever number the caller then sees, it must not
    // read as success
    // (codes of nine and more octets included: a decoder that shifts octets into a 64-bit word loses the top ones)
    let (rc_wide, rc_octets) = if r.chance(1, 40) {
        match r.below(11) {
            k @ 0..=6 => (Some([1u64 << 32, (1u64 << 32) + 10, (1u64 << 32) + 5, (1u64 << 32) + 6, 1u64 << 40, (1u64 << 63) - 1, 0x1_0000_0031][k as usize]), None),
            7 => (None, Some(vec![1, 0, 0, 0, 0, 0, 0, 0, 0])),
            8 => (None, Some(vec![1, 0, 0, 0, 0, 0, 0, 0, 0, 0, 0, 0])),
            9 => (None, Some(vec![1, 0, 0, 0, 0, 0, 0, 0, 10])),
            _ => (None, Some(vec![0, 0x80, 0, 0, 0, 0, 0, 0, 0, 6])),
        }
    } else {
        (None, None)
    };
    let text = |r: &mut Rng| if r.chance(1, 50) { gen_string(r, 20_000) } else if r.chance(1, 3) { String::new() } else { gen_string(r, 30) };
    let mut res = ResultSpec {
        rc,
        rc_wide,
        rc_octets,
        matched: text(r),
        text: text(r),
        refs: if r.chance(1, 3) { Some((0..r.usize(5)).map(|i| format!("ldap://h{i}/{}", gen_string(r, 8))).collect()) } else { None },
        sasl_creds: None,
        exop_name: None,
        exop_val: None,
    };
    match op {
        OpSpec::SimpleBind { .. } | OpSpec::SaslExternal => {
            if r.chance(1, 3) {
                res.sasl_creds = Some(gen_bytes(r, 10));
            }
        }
        OpSpec::Extended { .. } => {
            if r.chance(1, 2) {
                res.exop_name = Some(gen_oid(r));
            }
            res.exop_val = match r.below(3) {
                0 => None,
                1 => Some(vec![]),
                _ => Some(gen_bytes(r, 30)),
            };
        }
        OpSpec::Compare { .. } => {
            if r.chance(1, 2) {
                res.rc = *r.pick(&[5, 6, 10, 0]);
            }
        }
        _ => {}
    }
    let ctrls = if r.chance(1, 2) {
        None
    } else {
        Some(
            (0..r.usize(5))
                .map(|_| Ctl {
                    oid: (if r.chance(1, 3) { r.pick(KNOWN_OIDS).to_string() } else { gen_oid(r) }).into_bytes(),
                    crit: *r.pick(&[None, Some(true), Some(false)]),
                    val: match r.below(3) {
                        0 => None,
                        1 => Some(vec![]),
                        _ => Some(gen_bytes(r, 24)),
                    },
                })
                .collect(),
        )
    };
    (res, ctrls)
}

fn gen_mods(r: &mut Rng) -> Mods {
    Mods {
        controls: match r.below(4) {
            0 | 1 => None,
            _ => Some(
                (0..r.usize(5))
                    .map(|_| Ctl {
                        oid: gen_oid(r).into_bytes(),
                        crit: if r.chance(1, 3) { Some(true) } else { None },
                        val: match r.below(3) {
                            0 => None,
                            1 => Some(vec![]),
                            _ => Some(gen_bytes(r, 24)),
                        },
                    })
                    .collect(),
            ),
        },
        timeout_ms: if r.chance(1, 5) { Some(*r.pick(&[5, 50, 1000])) } else { None },
        opts: if r.chance(1, 3) {
            Some(SearchOpts { deref: r.below(4) as u8, typesonly: r.chance(1, 2), timelimit: *r.pick(&[0, 1, 60, 2147483647]), sizelimit: *r.pick(&[0, 1, 500, 2147483647, 128, 32768]) })
        } else {
            None
        },
    }
}

/// Family SEQ: one handle, strictly sequential, every operation kind with generated arguments,
/// modifiers applied / omitted / overwritten in every combination, rich responses.
pub fn gen_seq(seed: u64) -> Scenario {
    let mut r = Rng::new(seed);
    let mut sc = Scenario::new("SEQ");
    sc.knobs = gen_knobs(&mut r, false);
    sc.knobs.yield_pm = 0;
    sc.knobs.net_delay_max_ms = 0;
    sc.knobs.write_pending_pm = 0;
    sc.knobs.lenform_extra_max = *r.pick(&[0, 1, 3, 3]);
    let mut cs = ClientScript::default();
    let n = 2 + r.usize(9);
    let mut arrival = 0usize;
    // rarely one request with a very large element; the transport then takes whole buffers
    let big_at = if r.chance(1, 120) { Some(r.usize(n)) } else { None };
    if big_at.is_some() {
        sc.knobs.write_quota = 0;
        sc.knobs.write_pending_pm = 0;
    }
    for opix in 0..n {
        if r.chance(1, 4) {
            cs.steps.push(Step::SetMods { mods: gen_mods(&mut r) });
        }
        let mut op = gen_rich_op(&mut r);
        let mut mods = if r.chance(1, 2) { gen_mods(&mut r) } else { Mods::default() };
        // sometimes a call that is refused before anything is sent
        let mut refused = false;
        if r.chance(1, 12) {
            refused = true;
            op = match r.below(3) {
                0 => OpSpec::Add { dn: gen_dn(&mut r), attrs: vec![(b"cn".to_vec(), vec![])] },
                1 => OpSpec::Modify { dn: gen_dn(&mut r), mods: vec![ModSpec::Add(b"cn".to_vec(), vec![])] },
                _ => OpSpec::Search(SearchSpec { base: gen_dn(&mut r), scope: 2, filter_str: "(cn=unbalanced".into(), filter: None, attrs: vec![] }),
            };
        }
        if !refused && big_at == Some(opix) {
            // one element whose length needs three length octets (64 KiB and up)
            let size = *r.pick(&[65_535usize, 65_536, 65_537, 70_000, 131_072, 300_000, 1_048_575, 1_048_576]);
            let blob = r.bytes(size);
            match &mut op {
                OpSpec::SimpleBind { pw, .. } => *pw = "p".repeat(size),
                OpSpec::Add { attrs, .. } => attrs.push((b"jpegPhoto".to_vec(), vec![blob])),
                OpSpec::Compare { val, .. } => *val = blob,
                OpSpec::Modify { mods, .. } => mods.push(ModSpec::Replace(b"jpegPhoto".to_vec(), vec![blob])),
                OpSpec::Extended { val, .. } => *val = Some(blob),
                OpSpec::Delete { dn } | OpSpec::ModifyDn { dn, .. } => *dn = format!("cn={},dc=big", "d".repeat(size)),
                _ => {
                    let mut cv = mods.controls.take().unwrap_or_default();
                    cv.push(Ctl { oid: gen_oid(&mut r).into_bytes(), crit: None, val: Some(blob) });
                    mods.controls = Some(cv);
                }
            }
            sc.note = format!("big:{size}");
        }
        let tok = format!("#{arrival}");
        let sends = !refused;
        if sends {
            let expects_reply = !matches!(op, OpSpec::Abandon(_));
            if expects_reply {
                // a timed operation either gets a prompt reply or none at all (timing itself is C12's business)
                let silent = mods.timeout_ms.is_some() && r.chance(1, 3);
                // the effective timeout may also come from an earlier SetMods: keep replies prompt
                let plan = if let OpSpec::Search(_) = op {
                    let mut p = gen_items_plan(&mut r, &tok, 3, true, &[0]);
                    if let ReplyPlan::Items { done: Some(d), .. } = &mut p {
                        let (res, ctrls) = gen_rich_result(&mut r, &op);
                        d.res = res;
                        d.ctrls = ctrls;
                    }
                    p
                } else if silent {
                    ReplyPlan::Silent
                } else {
                    let (res, ctrls) = gen_rich_result(&mut r, &op);
                    ReplyPlan::Single { after_ms: 0, res, ctrls, extra: vec![] }
                };
                if matches!(plan, ReplyPlan::Silent) && mods.timeout_ms.is_none() {
                    mods.timeout_ms = Some(5);
                }
                sc.plan.by_token.insert(tok.clone(), plan);
            }
            arrival += 1;
        }
        cs.steps.push(Step::Op { token: if sends { tok } else { format!("refused{}", cs.steps.len()) }, op, mods, cancel_after_polls: None });
    }
    sc.clients.push(cs);
    sc.id_table = gen_id_start(&mut r);
    sc
}

/// Family PAGED: searches through the PagedResults adapter against a paging server model.
pub fn gen_paged(seed: u64) -> Scenario {
    let mut r = Rng::new(seed);
    let mut sc = Scenario::new("PAGED");
    sc.knobs = gen_knobs(&mut r, false);
    sc.knobs.net_delay_max_ms = *r.pick(&[0, 0, 1]);
    let n = match r.below(6) {
        0 => 0,
        1 => 1,
        2 => r.usize(200),
        _ => r.usize(25),
    };
    sc.plan.paging = Some(PagingModel {
        n,
        cap: *r.pick(&[0, 0, 0, 1, 3, 7]),
        cookie_seed: r.next_u64(),
        empty_first_page: r.chance(1, 6),
        supports_paging: !r.chance(1, 8),
        final_rc: if r.chance(2, 3) { 0 } else { *r.pick(RESULT_CODES) },
        // 0-4 other response controls on every SearchResultDone, the paging control anywhere among them
        other_ctrls: if r.chance(1, 2) { (0..1 + r.usize(4)).map(|i| Ctl { oid: gen_oid(&mut r).into_bytes(), crit: None, val: Some(format!("other{i}").into_bytes()) }).collect() } else { vec![] },
        page_delay_ms: *r.pick(&[0, 0, 1]),
        page_sizes: if r.chance(1, 3) { (0..1 + r.usize(5)).map(|_| *r.pick(&[0usize, 0, 1, 2, 3, 7])).collect() } else { vec![] },
        extra_empty_last_page: r.chance(1, 4),
        stall_at_page: None,
        paged_ctrl_pos: if r.chance(1, 2) { Some(r.usize(5)) } else { None },
        constant_cookie: r.chance(1, 6),
    });
    let nclients = if r.chance(1, 4) { 2 } else { 1 };
    for c in 0..nclients {
        let mut cs = ClientScript::default();
        let searches = 1 + r.usize(2);
        for k in 0..searches {
            let tok = format!("c{c}p{k}");
            sc.plan.by_token.insert(tok.clone(), ReplyPlan::Paged);
            let size = *r.pick(&[1, 2, 3, 5, 10, 100, 1000, 0]);
            let adapter = match r.below(4) {
                0 => Adapter::EntriesOnlyPaged(size),
                1 => Adapter::PagedEntriesOnly(size),
                _ => Adapter::Paged(size),
            };
            let mut mods = Mods { controls: gen_req_ctrls(&mut r, "pq"), timeout_ms: if r.chance(1, 4) { Some(10_000) } else { None }, opts: None };
            if r.chance(1, 3) {
                mods.opts = Some(SearchOpts { deref: r.below(4) as u8, typesonly: r.chance(1, 2), timelimit: *r.pick(&[0, 30]), sizelimit: *r.pick(&[0, 1000]) });
            }
            if r.chance(1, 10) {
                // a caller-supplied paging control must be refused
                let mut cs2 = mods.controls.take().unwrap_or_default();
                let at = r.usize(cs2.len() + 1);
                cs2.insert(at, Ctl { oid: b"1.2.840.113556.1.4.319".to_vec(), crit: None, val: Some(crate::server::encode_paged_value(5, b"")) });
                mods.controls = Some(cs2);
            }
            let search = gen_search_spec(&mut r, tok.clone());
            cs.steps.push(Step::Open { token: tok, slot: k, search, adapter, mods });
            let reads = if r.chance(3, 4) { n + 1 + r.usize(2) } else { r.usize(n + 1) };
            for _ in 0..reads {
                cs.steps.push(Step::Next { slot: k, cancel_after_polls: None });
            }
            cs.steps.push(Step::Finish { slot: k });
            if r.chance(1, 3) {
                cs.steps.push(Step::State { slot: k });
            }
        }
        cs.steps.push(Step::Barrier);
        sc.clients.push(cs);
    }
    sc
}

/// Family SYNC (C14): a sequential script over the whole LdapConn / EntryStream surface.
/// Stream calls directly follow their Open (the sync stream borrows the connection).
pub fn gen_sync(seed: u64) -> Scenario {
    let mut r = Rng::new(seed);
    let mut sc = Scenario::new("SYNC");
    // no schedule draws at all: both runs must be functions of the script alone
    sc.knobs = Knobs { lenform_extra_max: *r.pick(&[0, 1, 3]), lenform_seed: r.next_u64(), server_closes_on_unbind: r.chance(1, 2), ..Knobs::default() };
    let mut cs = ClientScript::default();
    let n = 2 + r.usize(8);
    let mut arrival = 0usize;
    let mut slot = 0usize;
    // In a fifth of the scripts the server hangs up after 497 ms without traffic (a value no sum of this family's
    // delays and timeouts reaches): calls left unanswered without a timeout then end with the connection.
    let idle_close = r.chance(1, 5);
    if idle_close {
        sc.plan.close_after_idle_ms = Some(497);
    }
    // the idle timer only starts with the server's first emission
    let mut emitted_any = false;
    for _ in 0..n {
        if r.chance(1, 5) {
            cs.steps.push(Step::SetMods { mods: gen_mods(&mut r) });
        }
        if r.chance(1, 6) {
            cs.steps.push(Step::Probe);
        }
        if r.chance(1, 6) {
            cs.steps.push(Step::ProbeCert);
        }
        let mut mods = if r.chance(1, 2) { gen_mods(&mut r) } else { Mods::default() };
        let tok = format!("#{arrival}");
        match r.below(10) {
            0..=5 => {
                let mut op = gen_rich_op(&mut r);
                if r.chance(1, 15) {
                    op = OpSpec::Unbind;
                }
                if let OpSpec::Search(_) = op {
                    // some searches are never finished by the server: search() then ends with the timeout or the connection
                    let unfinished = r.chance(1, 6);
                    let mut p = gen_items_plan(&mut r, &tok, 4, !unfinished, &[0, 1]);
                    if let ReplyPlan::Items { done: Some(d), .. } = &mut p {
                        let (res, ctrls) = gen_rich_result(&mut r, &op);
                        d.res = res;
                        d.ctrls = ctrls;
                    }
                    if unfinished {
                        if !(idle_close && emitted_any && r.chance(1, 2)) && mods.timeout_ms.is_none() {
                            mods.timeout_ms = Some(*r.pick(&[5, 50]));
                        }
                    } else {
                        emitted_any = true;
                    }
                    sc.plan.by_token.insert(tok.clone(), p);
                } else if !matches!(op, OpSpec::Abandon(_) | OpSpec::Unbind) {
                    let silent = r.chance(1, 8);
                    if silent {
                        if !(idle_close && emitted_any && r.chance(1, 2)) && mods.timeout_ms.is_none() {
                            mods.timeout_ms = Some(*r.pick(&[5, 50]));
                        }
                        sc.plan.by_token.insert(tok.clone(), ReplyPlan::Silent);
                    } else {
                        let (res, ctrls) = gen_rich_result(&mut r, &op);
                        sc.plan.by_token.insert(tok.clone(), ReplyPlan::Single { after_ms: *r.pick(&[0, 0, 1, 3]), res, ctrls, extra: vec![] });
                        emitted_any = true;
                    }
                }
                arrival += 1;
                cs.steps.push(Step::Op { token: tok, op, mods, cancel_after_polls: None });
            }
            6 => {
                // refused before sending
                let op = if r.chance(1, 2) {
                    OpSpec::Add { dn: gen_dn(&mut r), attrs: vec![(b"cn".to_vec(), vec![])] }
                } else {
                    OpSpec::Search(SearchSpec { base: gen_dn(&mut r), scope: 1, filter_str: "(&(a=b)".into(), filter: None, attrs: vec![] })
                };
                cs.steps.push(Step::Op { token: format!("refused{}", cs.steps.len()), op, mods, cancel_after_polls: None });
            }
            _ => {
                let unfinished = r.chance(1, 8);
                let mut p = gen_items_plan(&mut r, &tok, 5, !unfinished, &[0, 1]);
                if unfinished {
                    if !(idle_close && emitted_any && r.chance(1, 2)) && mods.timeout_ms.is_none() {
                        mods.timeout_ms = Some(*r.pick(&[5, 50]));
                    }
                } else {
                    emitted_any = true;
                }
                let n_items = match &p {
                    ReplyPlan::Items { items, .. } => items.len(),
                    _ => 0,
                };
                if let ReplyPlan::Items { done: Some(d), .. } = &mut p {
                    let op = OpSpec::Search(simple_search("x", &mut r));
                    let (res, ctrls) = gen_rich_result(&mut r, &op);
                    d.res = res;
                    d.ctrls = ctrls;
                }
                sc.plan.by_token.insert(tok.clone(), p);
                arrival += 1;
                let adapter = *r.pick(&[Adapter::Direct, Adapter::Direct, Adapter::EntriesOnly]);
                let base = gen_dn(&mut r);
                let search = gen_search_spec(&mut r, base);
                cs.steps.push(Step::Open { token: tok, slot, search, adapter, mods });
                let reads = if r.chance(2, 3) { n_items + 1 } else { r.usize(n_items + 1) };
                for _ in 0..reads {
                    cs.steps.push(Step::Next { slot, cancel_after_polls: None });
                }
                if r.chance(4, 5) {
                    cs.steps.push(Step::Finish { slot });
                } else {
                    // make sure the block ends here
                    cs.steps.push(Step::Probe);
                }
                slot += 1;
            }
        }
    }
    if !idle_close && r.chance(1, 4) && arrival > 0 {
        sc.plan.close_on_arrival = Some(r.usize(arrival));
    }
    if r.chance(1, 3) {
        cs.steps.push(Step::ProbeCert);
    }
    // One script in six ends with a paged search (its follow-up requests would shift the arrival numbers the
    // plans of later calls are keyed by, so it comes last): last_id() of the stream follows the current page.
    if r.chance(1, 6) {
        let n = 2 + r.usize(7);
        let size = 1 + r.usize(3);
        sc.plan.paging = Some(PagingModel {
            n,
            cap: 0,
            cookie_seed: r.next_u64(),
            empty_first_page: false,
            supports_paging: true,
            final_rc: *r.pick(&[0, 0, 4, 10]),
            other_ctrls: vec![],
            page_delay_ms: 0,
            page_sizes: vec![],
            extra_empty_last_page: r.chance(1, 4),
            stall_at_page: None,
            paged_ctrl_pos: None,
        constant_cookie: false,
        });
        let tok = "pgd".to_string();
        sc.plan.by_token.insert(tok.clone(), ReplyPlan::Paged);
        let adapter = *r.pick(&[Adapter::Paged(size as i32), Adapter::Paged(size as i32), Adapter::EntriesOnlyPaged(size as i32), Adapter::PagedEntriesOnly(size as i32)]);
        let mut search = gen_search_spec(&mut r, tok.clone());
        search.base = tok.clone();
        cs.steps.push(Step::Open { token: tok, slot, search, adapter, mods: if r.chance(1, 3) { gen_mods(&mut r) } else { Mods::default() } });
        let reads = if r.chance(2, 3) { n + 1 } else { r.usize(n + 1) };
        for _ in 0..reads {
            cs.steps.push(Step::Next { slot, cancel_after_polls: None });
        }
        cs.steps.push(Step::Finish { slot });
    }
    sc.clients.push(cs);
    sc.id_table = gen_id_start(&mut r);
    sc
}

// ---------------------------------------------------------------------------------------------
// HOSTILE: one hostile item spliced into the response stream at a frame boundary
// ---------------------------------------------------------------------------------------------

#[derive(Clone, Debug)]
struct Span {
    depth: usize,
    tag_off: usize,
    len_off: usize,
    len_len: usize,
    content_off: usize,
    content_len: usize,
}

fn encode_map(t: &crate::ber::Tlv, depth: usize, out: &mut Vec<u8>, spans: &mut Vec<Span>) {
    use crate::ber::Body;
    let tag_off = out.len();
    let cons = matches!(t.body, Body::Cons(_));
    out.push(((t.class as u8) << 6) | if cons { 0x20 } else { 0 } | t.tag as u8);
    let idx = spans.len();
    spans.push(Span { depth, tag_off, len_off: 0, len_len: 0, content_off: 0, content_len: 0 });
    let mut content = Vec::new();
    let mut inner_spans = Vec::new();
    match &t.body {
        Body::Prim(v) => content.extend_from_slice(v),
        Body::Cons(items) => {
            for i in items {
                encode_map(i, depth + 1, &mut content, &mut inner_spans);
            }
        }
    }
    let len_off = out.len();
    crate::ber::write_len(out, content.len(), 0);
    let content_off = out.len();
    out.extend_from_slice(&content);
    spans[idx].len_off = len_off;
    spans[idx].len_len = content_off - len_off;
    spans[idx].content_off = content_off;
    spans[idx].content_len = content.len();
    for mut s in inner_spans {
        s.tag_off += content_off;
        s.len_off += content_off;
        s.content_off += content_off;
        spans.push(s);
    }
}

fn set_len(bytes: &mut Vec<u8>, sp: &Span, new_len: usize) {
    // rewrite the length field in place (may change its size)
    let mut l = Vec::new();
    crate::ber::write_len(&mut l, new_len, 0);
    bytes.splice(sp.len_off..sp.len_off + sp.len_len, l);
}

/// Build one hostile item. `search` says whether the IDs 1..=n_ids belong to searches.
pub fn gen_hostile_item(r: &mut Rng, search: bool, n_ids: usize) -> Hostile {
    use crate::ber::{Class, Tlv};
    use crate::msg::{resp_tlv, Resp};
    let id = 1 + r.below(n_ids as u64) as i64;
    let ctrls = if r.chance(1, 2) { Some(vec![Ctl { oid: b"1.2.3.4".to_vec(), crit: Some(true), val: Some(b"v".to_vec()) }, Ctl { oid: b"1.2.3.5".to_vec(), crit: None, val: None }]) } else { None };
    let base_resp = if search {
        if r.chance(1, 2) {
            Resp { id, op: RespOp::Entry { dn: "cn=hostile".into(), attrs: vec![("cn".into(), vec![b"x".to_vec(), b"y".to_vec()])] }, ctrls: ctrls.clone() }
        } else {
            Resp { id, op: RespOp::Result { tag: 5, res: ResultSpec::simple(0, "hostile-done") }, ctrls: ctrls.clone() }
        }
    } else {
        Resp { id, op: RespOp::Result { tag: *r.pick(&[1, 7, 9, 11, 13, 15, 24]), res: ResultSpec { refs: Some(vec!["ldap://x/".into()]), ..ResultSpec::simple(0, "hostile-reply") } }, ctrls: ctrls.clone() }
    };
    let tlv = resp_tlv(&base_resp);
    let mut bytes = Vec::new();
    let mut spans = Vec::new();
    encode_map(&tlv, 0, &mut bytes, &mut spans);
    let h = |class: &str, bytes: Vec<u8>, must_end: bool| Hostile { before_emission: 0, class: class.to_string(), bytes, must_end, nest: None, outer_inflated: false, gap_after_ms: 0, nest_tag: 0 };
    let inner: Vec<Span> = spans.iter().filter(|s| s.depth >= 1).cloned().collect();
    match r.below(30) {
        0 => {
            let n = 1 + r.usize(40);
            h("garbage", r.bytes(n), false)
        }
        1 => {
            let mut b = bytes.clone();
            for _ in 0..1 + r.usize(3) {
                let i = r.usize(b.len());
                b[i] ^= 1 << r.below(8);
            }
            h("bitflip", b, false)
        }
        2 => {
            let mut b = bytes.clone();
            b[0] = *r.pick(&[0x04, 0x31, 0x70, 0xA0, 0x02, 0x0A, 0x61, 0xB0]);
            h("outer-not-sequence", b, true)
        }
        3 => {
            let mut b = bytes.clone();
            b[0] = 0x10;
            h("outer-primitive", b, true)
        }
        4 => {
            // drop the messageID element
            let items = match &tlv.body {
                crate::ber::Body::Cons(v) => v[1..].to_vec(),
                _ => vec![],
            };
            h("msgid-missing", crate::ber::encode(&Tlv::seq(items)), true)
        }
        5 => {
            let mut b = bytes.clone();
            let sp = &inner[0];
            b[sp.tag_off] = *r.pick(&[0x04, 0x0A, 0x82, 0x42, 0x01]);
            h("msgid-wrong-tag", b, true)
        }
        6 => {
            let mut b = bytes.clone();
            b[inner[0].tag_off] = 0x22;
            h("msgid-constructed", b, true)
        }
        7 => {
            let items = match &tlv.body {
                crate::ber::Body::Cons(v) => {
                    let mut x = v.clone();
                    x[0] = Tlv::prim(Class::Univ, 2, vec![]);
                    x
                }
                _ => vec![],
            };
            h("msgid-empty", crate::ber::encode(&Tlv::seq(items)), false)
        }
        8 => h("protocolop-missing", crate::ber::encode(&Tlv::seq(vec![Tlv::int(id)])), false),
        9 => h("empty-envelope", vec![0x30, 0x00], true),
        10 | 11 => {
            // an inner element claims more bytes than its container holds: pick one that ends where the
            // frame ends, so that any inflation overruns the announced outer length
            let frame_end = bytes.len();
            let tails: Vec<Span> = inner.iter().filter(|s| s.content_off + s.content_len == frame_end).cloned().collect();
            let sp = r.pick(&tails).clone();
            let mut b = bytes.clone();
            set_len(&mut b, &sp, sp.content_len + 1 + r.usize(5));
            // keep the outer announced length as it was: re-encode is not done, so the outer length is unchanged
            // (set_len may have grown the length field by one byte: adjust the outer length to keep the frame size)
            let grown = b.len() as isize - bytes.len() as isize;
            if grown != 0 {
                let outer = spans[0].clone();
                let mut b2 = b.clone();
                set_len(&mut b2, &outer, (outer.content_len as isize + grown) as usize);
                b = b2;
            }
            h("inner-length-inflated", b, true)
        }
        12 => {
            let cands: Vec<&Span> = inner.iter().filter(|s| s.content_len >= 2).collect();
            if cands.is_empty() {
                return h("empty-envelope", vec![0x30, 0x00], true);
            }
            let sp = (*r.pick(&cands)).clone();
            let mut b = bytes.clone();
            set_len(&mut b, &sp, sp.content_len - 1 - r.usize(sp.content_len - 1));
            h("inner-length-truncated", b, false)
        }
        13 => {
            let mut b = bytes.clone();
            let outer = spans[0].clone();
            set_len(&mut b, &outer, outer.content_len + 1 + r.usize(300));
            Hostile { outer_inflated: true, ..h("outer-length-inflated", b, false) }
        }
        14 => {
            let mut b = bytes.clone();
            let outer = spans[0].clone();
            set_len(&mut b, &outer, outer.content_len - 1 - r.usize(outer.content_len.min(10) - 1));
            h("outer-length-truncated", b, false)
        }
        15 | 16 => {
            // an operation that does not belong to the ID's kind
            let op = if search {
                RespOp::Result { tag: *r.pick(&[1, 7, 9, 11, 13, 15, 24, 3, 30]), res: ResultSpec::simple(0, "wrong-op") }
            } else {
                match r.below(3) {
                    0 => RespOp::Entry { dn: "cn=wrong".into(), attrs: vec![] },
                    1 => RespOp::Reference { uris: vec!["ldap://w/".into()] },
                    _ => RespOp::Intermediate { name: None, val: None },
                }
            };
            h("operation-of-the-wrong-kind-for-the-id", crate::ber::encode(&resp_tlv(&Resp { id, op, ctrls: None })), false)
        }
        17 => {
            // more length octets than any implementation needs
            let mut b = vec![0x30, 0x89, 0, 0, 0, 0, 0, 0, 0, 0];
            let content = &bytes[spans[0].content_off..];
            b.push(content.len() as u8);
            b.extend_from_slice(content);
            h("oversize-length-octets", b, false)
        }
        18 | 19 => {
            let depth = *r.pick(&[10u32, 100, 1000, 10_000, 100_000, 200_000]);
            // nests of SEQUENCEs, SETs, context- and application-class constructed elements
            Hostile { nest: Some((depth, id, r.chance(1, 2))), nest_tag: *r.pick(&[0x30u8, 0x30, 0xA0, 0x61, 0x31, 0xA3]), ..h(&format!("nesting-depth-{depth}"), vec![], false) }
        }
        20..=24 => {
            // control list mutations
            let bad: Tlv = match r.below(8) {
                0 => Tlv::seq(vec![]),                                                                  // control without OID
                1 => Tlv::seq(vec![Tlv::octets(b"1.2.3".to_vec()), Tlv::prim(Class::Univ, 1, vec![])]), // empty BOOLEAN
                2 => Tlv::seq(vec![Tlv::octets(b"1.2.3".to_vec()), Tlv::cons(Class::Univ, 1, vec![])]), // constructed BOOLEAN
                3 => Tlv::seq(vec![Tlv::octets(b"1.2.3".to_vec()), Tlv::cons(Class::Univ, 4, vec![Tlv::octets(b"v".to_vec())])]), // constructed value
                4 => Tlv::octets(b"not a control".to_vec()),
                5 => Tlv::seq(vec![Tlv::octets(b"1.2.3".to_vec()), Tlv::int(5)]),
                6 => Tlv::seq(vec![Tlv::cons(Class::Univ, 4, vec![])]), // constructed OID
                _ => Tlv::seq(vec![Tlv::octets(vec![0xff, 0xfe]), Tlv::boolean(true)]), // OID not UTF-8
            };
            let items = match &tlv.body {
                crate::ber::Body::Cons(v) => vec![v[0].clone(), v[1].clone(), Tlv::cons(Class::Ctx, 0, vec![bad])],
                _ => vec![],
            };
            h("malformed-control", crate::ber::encode(&Tlv::seq(items)), false)
        }
        25 => {
            let items = match &tlv.body {
                crate::ber::Body::Cons(v) => vec![v[0].clone(), v[1].clone(), Tlv::prim(Class::Ctx, 0, b"xx".to_vec())],
                _ => vec![],
            };
            h("controls-primitive", crate::ber::encode(&Tlv::seq(items)), false)
        }
        26 | 27 => {
            // malformed LDAPResult body inside a well-formed envelope
            let tag = if search { 5 } else { 7 };
            let body: Tlv = match r.below(6) {
                0 => Tlv::cons(Class::App, tag, vec![]),
                1 => Tlv::cons(Class::App, tag, vec![Tlv::octets(b"0".to_vec()), Tlv::octets(vec![]), Tlv::octets(vec![])]),
                2 => Tlv::cons(Class::App, tag, vec![Tlv::enumerated(0)]),
                3 => Tlv::cons(Class::App, tag, vec![Tlv::enumerated(0), Tlv::octets(vec![0xff]), Tlv::octets(vec![])]),
                4 => Tlv::prim(Class::App, tag, b"prim".to_vec()),
                _ => Tlv::cons(Class::App, tag, vec![Tlv::enumerated(0), Tlv::octets(vec![]), Tlv::octets(vec![]), Tlv::prim(Class::Ctx, 3, b"refs".to_vec())]),
            };
            h("malformed-result-body", crate::ber::encode(&Tlv::seq(vec![Tlv::int(id), body])), false)
        }
        28 => {
            let mut b = vec![0x30, 0x80];
            b.extend_from_slice(&bytes[spans[0].content_off..]);
            b.extend_from_slice(&[0, 0]);
            h("indefinite-length", b, false)
        }
        _ => Hostile { outer_inflated: true, ..h("huge-announced-length", vec![0x30, 0x84, 0x7f, 0xff, 0xff, 0xff, 0x02, 0x01, 0x01], false) },
    }
}

pub fn gen_hostile(seed: u64) -> Scenario {
    let mut r = Rng::new(seed);
    let mut sc = Scenario::new("HOSTILE");
    sc.knobs = gen_knobs(&mut r, false);
    sc.knobs.yield_pm = 0;
    sc.knobs.net_delay_max_ms = 0;
    let search = r.chance(1, 2);
    let n = 1 + r.usize(3);
    for c in 0..n {
        let mut cs = ClientScript::default();
        let tok = format!("c{c}s0");
        if search {
            let mut plan = gen_items_plan(&mut r, &tok, 2, true, &[0]);
            let mut n_items = 0;
            if let ReplyPlan::Items { items, done, .. } = &mut plan {
                if let Some(f) = items.first_mut() {
                    f.gap_ms = 10;
                } else if let Some(d) = done {
                    d.gap_ms = 10;
                }
                n_items = items.len();
            }
            sc.plan.by_token.insert(tok.clone(), plan);
            cs.steps.push(Step::Open { token: tok.clone(), slot: 0, search: simple_search(&tok, &mut r), adapter: if r.chance(1, 2) { Adapter::Direct } else { Adapter::EntriesOnly }, mods: Mods::default() });
            for _ in 0..=n_items {
                cs.steps.push(Step::Next { slot: 0, cancel_after_polls: None });
            }
            cs.steps.push(Step::Finish { slot: 0 });
        } else {
            let op = gen_single_op(&mut r, &tok);
            let plan = gen_single_plan(&mut r, &op, &tok, &[10], false);
            sc.plan.by_token.insert(tok.clone(), plan);
            cs.steps.push(Step::Op { token: tok, op, mods: Mods::default(), cancel_after_polls: None });
        }
        sc.clients.push(cs);
    }
    let mut h = gen_hostile_item(&mut r, search, n);
    let total_emissions: usize = sc
        .plan
        .by_token
        .values()
        .map(|p| match p {
            ReplyPlan::Single { .. } => 1,
            ReplyPlan::Items { items, done, .. } => items.len() + done.is_some() as usize,
            _ => 0,
        })
        .sum();
    h.before_emission = if r.chance(2, 3) { 0 } else { r.usize(total_emissions.max(1)) };
    // in a third of the runs nothing follows the item for a while: a complete frame must be dealt with
    // when its last byte is there, not when more bytes happen to arrive
    if r.chance(1, 3) {
        h.gap_after_ms = *r.pick(&[5, 50, 300]);
    }
    if h.nest.map_or(false, |(d, ..)| d >= 10_000) {
        // the decoder re-parses the whole buffer for every chunk: keep big frames in one piece
        sc.knobs.chunking = Chunking::Whole;
        sc.knobs.max_read = 0;
        sc.knobs.random_read_cap = false;
        sc.knobs.read_pending_pm = 0;
    }
    sc.plan.hostile = Some(h);
    sc.plan.close_after_idle_ms = Some(1000);
    sc
}

// ---------------------------------------------------------------------------------------------
// ESTAB lanes (C17, C18): cases are carried as JSON in `Scenario::note`
// ---------------------------------------------------------------------------------------------

use crate::estab::{EstabCase, HostForm, Peer, StartTlsResp, StdKind, TlsBehaviour};

fn estab_scenario(family: &str, case: &EstabCase) -> Scenario {
    let mut sc = Scenario::new(family);
    sc.note = serde_json::to_string(case).unwrap();
    sc
}

fn base_case(lane: &str) -> EstabCase {
    EstabCase {
        lane: lane.into(),
        scheme: "ldap".into(),
        host: HostForm::Ip4,
        explicit_port: true,
        sock_name: "sock".into(),
        encode_all: false,
        ldapi_port: false,
        ldapi_empty: false,
        raw_url: None,
        starttls: false,
        no_tls_verify: false,
        trust_ca: false,
        conn_timeout_ms: None,
        std_stream: StdKind::None,
        sync_api: false,
        peer: Peer::Accept,
        clone_settings: false,
    }
}

pub fn gen_estab_url(seed: u64) -> Scenario {
    let mut r = Rng::new(seed);
    let mut c = base_case("url");
    match r.below(100) {
        0..=39 => c.scheme = "ldap".into(),
        40..=54 => c.scheme = "ldaps".into(),
        55..=84 => c.scheme = "ldapi".into(),
        85..=92 => {
            c.scheme = "other".into();
            c.raw_url = Some(r.pick(&["http://127.0.0.1:1/", "ldapx://127.0.0.1:1/", "ldap+tls://localhost/", "cldap://localhost/", "ldapis://%2ftmp%2fx", "file:///tmp/x"]).to_string());
        }
        _ => {
            c.scheme = "unparsable".into();
            c.raw_url = Some(r.pick(&["ldap://host name/", "ldap://:389/", "ldap://127.0.0.1:99999/", "not a url", "ldapi://%2ftmp%2fa:b", "", "ldap://[::1", "://x"]).to_string());
        }
    }
    c.std_stream = match r.below(10) {
        0 => StdKind::Tcp,
        1 => StdKind::Unix,
        2 => StdKind::Invalid,
        _ => StdKind::None,
    };
    if c.scheme == "ldap" || c.scheme == "ldaps" {
        c.host = match r.below(20) {
            0..=9 => HostForm::Ip4,
            10..=14 => HostForm::Name,
            15..=16 => HostForm::Ip6,
            _ => HostForm::Absent,
        };
        c.explicit_port = c.host != HostForm::Absent && !r.chance(1, 5);
        c.starttls = if c.scheme == "ldap" { r.chance(1, 4) } else { r.chance(1, 3) };
        let needs_tls = c.starttls || c.scheme == "ldaps";
        c.peer = if needs_tls {
            match r.below(6) {
                0 => Peer::Absent,
                1 => Peer::Stall,
                2 | 3 => Peer::AcceptClose,
                _ => {
                    // a TLS-capable server in good order: ldaps must open with TLS whatever the StartTLS flag says
                    // (a custom connector is used as it is: no_tls_verify only acts on the default one)
                    // (the process's system store is the harness CA: the default connector verifies against it)
                    if c.host == HostForm::Name {
                        c.trust_ca = r.chance(1, 2);
                    } else {
                        c.no_tls_verify = true;
                    }
                    Peer::Tls { starttls: StartTlsResp::Success, tls: TlsBehaviour::Good, rogue: false }
                }
            }
        } else {
            match r.below(5) {
                0 => Peer::Absent,
                1 => Peer::AcceptClose,
                _ => Peer::Accept,
            }
        };
        if c.peer == Peer::Stall {
            c.conn_timeout_ms = Some(*r.pick(&[50, 1000, 30_000]));
        }
        if c.host == HostForm::Ip6 && c.std_stream == StdKind::Tcp {
            c.std_stream = StdKind::None;
        }
    } else if c.scheme == "ldapi" {
        c.sock_name = r.pick(&["sock", "so ck", "s%k", "s\u{f6}ck", "a#b", "a?b", "a+b", "a:b", "x.y-z_0"]).to_string();
        c.encode_all = r.chance(1, 2);
        c.ldapi_port = r.chance(1, 7);
        c.ldapi_empty = r.chance(1, 10);
        c.peer = if r.chance(1, 5) { Peer::Absent } else { Peer::Accept };
        c.starttls = r.chance(1, 10);
    }
    // the synchronous API runs on a runtime of its own with the real clock: a stalling peer is only combined with
    // the shortest timeout there (50 ms of real time per such case)
    c.sync_api = r.chance(1, 3) && (c.peer != Peer::Stall || c.conn_timeout_ms == Some(50));
    if c.sync_api && c.conn_timeout_ms.is_none() && (c.scheme == "ldap" || c.scheme == "ldaps") && r.chance(1, 3) {
        // a timeout that has no reason to expire: the outcome is that of the same case without one. (Only with the
        // real clock: under the paused clock of the asynchronous cases an armed timer fires as soon as the
        // runtime idles, i.e. while the peer thread is still working.)
        c.conn_timeout_ms = Some(*r.pick(&[30_000, 600_000]));
    }
    c.clone_settings = c.std_stream == StdKind::None && r.chance(1, 6);
    estab_scenario("ESTABURL", &c)
}

pub fn gen_estab_tls(seed: u64) -> Scenario {
    let mut r = Rng::new(seed);
    let mut c = base_case("tls");
    let starttls_scheme = r.chance(3, 5);
    c.scheme = if starttls_scheme { "ldap".into() } else { "ldaps".into() };
    c.starttls = starttls_scheme || r.chance(1, 6); // the flag is ignored for ldaps
    // the harness certificate names "localhost" only: an address literal of either family must not verify
    c.host = match r.below(20) {
        0..=12 => HostForm::Name,
        13..=16 => HostForm::Ip4,
        _ => HostForm::Ip6,
    };
    c.trust_ca = r.chance(3, 5);
    c.no_tls_verify = r.chance(1, 4);
    let st = if starttls_scheme {
        match r.below(100) {
            0..=39 => StartTlsResp::Success,
            // any non-zero code, with the codes some helper of the library treats as "not an error" well represented
            40..=56 => StartTlsResp::Code(*r.pick(&[10, 10, 10, 5, 6, 14, 1, 2, 8, 13, 49, 52, 53, 80, 118, 4096, 2147483648, 4294967295])),
            57..=59 => match r.below(6) {
                k @ 0..=2 => StartTlsResp::CodeWide([1u64 << 32, (1u64 << 32) + 10, 1u64 << 40][k as usize]),
                // nine and more octets: 2^64, 2^88, 2^64 + 10
                3 => StartTlsResp::CodeOctets(vec![1, 0, 0, 0, 0, 0, 0, 0, 0]),
                4 => StartTlsResp::CodeOctets(vec![1, 0, 0, 0, 0, 0, 0, 0, 0, 0, 0, 0]),
                _ => StartTlsResp::CodeOctets(vec![1, 0, 0, 0, 0, 0, 0, 0, 10]),
            },
            60..=63 => StartTlsResp::Garbage,
            64..=65 => StartTlsResp::NoticeThenClose,
            66..=67 => StartTlsResp::NoticeThenSuccess,
            68..=75 => StartTlsResp::Close,
            76..=83 => StartTlsResp::Silent,
            _ => StartTlsResp::SuccessPlusInjected,
        }
    } else {
        StartTlsResp::Success
    };
    let tls = match r.below(10) {
        0 => TlsBehaviour::Refuse,
        1 => TlsBehaviour::Garbage,
        2 => TlsBehaviour::Silent,
        _ => TlsBehaviour::Good,
    };
    if st == StartTlsResp::Silent || (tls == TlsBehaviour::Silent && matches!(st, StartTlsResp::Success | StartTlsResp::SuccessPlusInjected | StartTlsResp::NoticeThenSuccess)) {
        c.conn_timeout_ms = Some(*r.pick(&[50, 1000, 30_000]));
    }
    // the certificate: issued by the harness CA (which the custom connector and the process's system store trust)
    // or by a CA nobody trusts
    let rogue = r.chance(1, 5);
    c.peer = Peer::Tls { starttls: st.clone(), tls, rogue };
    c.std_stream = if c.host != HostForm::Ip6 && r.chance(1, 7) { StdKind::Tcp } else { StdKind::None };
    if c.conn_timeout_ms.is_none() && r.chance(1, 12) {
        // a pre-opened Unix stream cannot carry the TLS the URL asks for: establishment must fail
        c.std_stream = StdKind::Unix;
    }
    // a clone of the settings must behave like the original (a cloned pre-opened stream is not usable by design)
    c.clone_settings = c.std_stream == StdKind::None && r.chance(1, 5);
    c.sync_api = c.conn_timeout_ms.is_none() && st != StartTlsResp::SuccessPlusInjected && c.std_stream != StdKind::Unix && r.chance(1, 4);
    estab_scenario("ESTABTLS", &c)
}

/// Base scenario of family PAGEDFAULT (C04): one paged search read to the end, then finished.
pub fn gen_paged_fault_base(seed: u64) -> Scenario {
    let mut r = Rng::new(seed);
    let mut sc = Scenario::new("PAGEDFAULT");
    sc.knobs = gen_knobs(&mut r, false);
    sc.knobs.net_delay_max_ms = *r.pick(&[0, 0, 1]);
    let n = 2 + r.usize(11);
    sc.plan.paging = Some(PagingModel {
        n,
        cap: 0,
        cookie_seed: r.next_u64(),
        empty_first_page: false,
        supports_paging: true,
        final_rc: 0,
        other_ctrls: vec![],
        page_delay_ms: *r.pick(&[0, 0, 1]),
        page_sizes: vec![],
        extra_empty_last_page: r.chance(1, 4),
        stall_at_page: None,
        paged_ctrl_pos: None,
        constant_cookie: false,
    });
    let tok = "c0p0".to_string();
    sc.plan.by_token.insert(tok.clone(), ReplyPlan::Paged);
    let size = 1 + r.below(3) as i32;
    let adapter = *r.pick(&[Adapter::Paged(size), Adapter::Paged(size), Adapter::EntriesOnlyPaged(size), Adapter::PagedEntriesOnly(size)]);
    let mut cs = ClientScript::default();
    cs.steps.push(Step::Open { token: tok, slot: 0, search: simple_search("c0p0", &mut r), adapter, mods: Mods::default() });
    for _ in 0..=n {
        cs.steps.push(Step::Next { slot: 0, cancel_after_polls: None });
    }
    cs.steps.push(Step::Finish { slot: 0 });
    sc.clients.push(cs);
    sc
}


/// Family REALIO (C04 on real transports): one short exchange and one ending per case.
pub fn gen_realio(seed: u64) -> Scenario {
    use crate::realio::{Ending, RealCase, Transport};
    let mut r = Rng::new(seed);
    let transport = *r.pick(&[Transport::Tcp, Transport::TcpPre, Transport::UnixUrl, Transport::UnixPair, Transport::Ldaps, Transport::StartTls, Transport::StartTlsPre]);
    let sync_api = r.chance(1, 4);
    let tcp_based = !matches!(transport, Transport::UnixUrl | Transport::UnixPair);
    let pending = if sync_api { 1 } else { 1 + r.usize(4) };
    let ending = match r.below(if tcp_based { 7 } else { 5 }) {
        0 => Ending::Unbind,
        1 => Ending::DropHandles,
        2 => Ending::PeerClose { pending },
        3 => Ending::PeerGarbage { pending },
        4 => Ending::PeerCloseIdle,
        5 => Ending::PeerCloseAtAccept,
        _ => Ending::PeerReset { pending },
    };
    let mut case = RealCase { transport, warmup: r.usize(4), ending, sync_api };
    if r.chance(1, 12) {
        // the single-exchange driver turn of StartTLS meeting a stream that is already at its end: which of its
        // ready events the driver looks at first is a coin toss each time, so this corner gets cases of its own
        case = RealCase { transport: Transport::StartTlsPre, warmup: 0, ending: Ending::PeerCloseAtAccept, sync_api: false };
    }
    let mut sc = Scenario::new("REALIO");
    sc.note = serde_json::to_string(&case).unwrap();
    sc
}

