//! In-memory transport handed to ldap3 through hook H1, and the network actor that
//! decides when bytes sent by the server become readable.

use crate::scenario::{Chunking, Fault, IoKind};
use crate::world::{self, EndKind, EvKind};
use std::future::Future;
use std::io;
use std::pin::Pin;
use std::task::{Context, Poll};
use tokio::io::{AsyncRead, AsyncWrite, ReadBuf};

#[derive(Debug)]
pub struct SimIo;

pub fn io_err(k: IoKind) -> io::Error {
    match k {
        IoKind::Reset => io::Error::new(io::ErrorKind::ConnectionReset, "sim: connection reset"),
        IoKind::Aborted => io::Error::new(io::ErrorKind::ConnectionAborted, "sim: connection aborted"),
        IoKind::TimedOut => io::Error::new(io::ErrorKind::TimedOut, "sim: timed out"),
        IoKind::BrokenPipe => io::Error::new(io::ErrorKind::BrokenPipe, "sim: broken pipe"),
        IoKind::Other => io::Error::new(io::ErrorKind::Other, "sim: other error"),
    }
}

pub fn apply_faults(faults: &[Fault]) {
    world::with(|w| {
        for f in faults {
            match f {
                Fault::EofAt { at } => w.pipe.s2c_end = Some((*at, EndKind::Eof)),
                Fault::ReadErrAt { at, kind } => w.pipe.s2c_end = Some((*at, EndKind::Err(*kind))),
                Fault::WriteErrAt { at, kind } => w.pipe.w_fault = Some((*at, *kind)),
                Fault::ServerCloseAfter { at } => w.pipe.server_close_after = Some(*at),
                Fault::FlushErr { nth, kind } => w.pipe.flush_fault = Some((*nth, *kind)),
                Fault::ShutdownErr { kind } => w.pipe.shutdown_fault = Some(*kind),
            }
        }
    })
}

impl AsyncRead for SimIo {
    fn poll_read(self: Pin<&mut Self>, cx: &mut Context<'_>, buf: &mut ReadBuf<'_>) -> Poll<io::Result<()>> {
        world::with(|w| {
            let avail = w.pipe.delivered - w.pipe.read_pos;
            if avail > 0 {
                if w.knobs.read_pending_pm > 0 && w.sched.permille(w.knobs.read_pending_pm) {
                    w.stats.bump("io.read_pending_despite_data");
                    cx.waker().wake_by_ref();
                    return Poll::Pending;
                }
                let mut n = avail.min(buf.remaining());
                if w.knobs.random_read_cap {
                    let cap = 1 + w.sched.draw(n.min(4096) as u32) as usize;
                    n = n.min(cap);
                } else if w.knobs.max_read > 0 {
                    n = n.min(w.knobs.max_read);
                }
                let s = w.pipe.read_pos;
                buf.put_slice(&w.pipe.s2c[s..s + n]);
                w.pipe.read_pos += n;
                w.stats.bump("io.reads");
                if n < avail {
                    w.stats.bump("io.short_reads");
                }
                return Poll::Ready(Ok(()));
            }
            if let Some((at, kind)) = w.pipe.s2c_end {
                if w.pipe.read_pos >= at {
                    let first = !w.pipe.end_seen;
                    w.pipe.end_seen = true;
                    if first && !w.pipe.cut_noted {
                        w.pipe.cut_noted = true;
                        w.fault_fired("s2c_cut", at);
                    }
                    return match kind {
                        EndKind::Eof => {
                            if first {
                                w.ev(EvKind::ReadEnd { what: "eof".into(), at });
                            }
                            Poll::Ready(Ok(()))
                        }
                        EndKind::Err(k) => {
                            if first {
                                w.ev(EvKind::ReadEnd { what: format!("{:?}", k), at });
                            }
                            Poll::Ready(Err(io_err(k)))
                        }
                    };
                }
            }
            w.pipe.r_waker = Some(cx.waker().clone());
            Poll::Pending
        })
    }
}

impl AsyncWrite for SimIo {
    fn poll_write(self: Pin<&mut Self>, cx: &mut Context<'_>, buf: &[u8]) -> Poll<io::Result<usize>> {
        world::with(|w| {
            if w.pipe.client_shutdown || w.pipe.server_closed {
                w.stats.bump("io.write_after_close");
                if !w.pipe.write_after_close_noted {
                    w.pipe.write_after_close_noted = true;
                    let at = w.pipe.c2s.len();
                    w.ev(EvKind::Fault { what: "write_after_close".into(), at });
                }
                return Poll::Ready(Err(io_err(IoKind::BrokenPipe)));
            }
            let len = w.pipe.c2s.len();
            let mut room = buf.len();
            if let Some((at, kind)) = w.pipe.w_fault {
                if len >= at {
                    if !w.pipe.w_fault_fired {
                        w.pipe.w_fault_fired = true;
                        w.fault_fired("write_err", at);
                    }
                    return Poll::Ready(Err(io_err(kind)));
                }
                room = room.min(at - len);
            }
            if let Some(at) = w.pipe.server_close_after {
                if len < at {
                    room = room.min(at - len);
                }
            }
            if let Some((off, ms)) = w.knobs.write_stall {
                if len >= off {
                    let now = w.now_ms();
                    if w.pipe.stall_until.is_none() {
                        w.pipe.stall_until = Some(now + ms);
                        w.stats.bump("io.write_stall");
                        w.ev(EvKind::Fault { what: "write_stall".into(), at: ms as usize });
                    }
                    if now < w.pipe.stall_until.unwrap() {
                        w.pipe.w_waker = Some(cx.waker().clone());
                        if let Some(wk) = w.pipe.net_waker.take() {
                            wk.wake();
                        }
                        return Poll::Pending;
                    }
                }
            }
            if w.knobs.write_pending_pm > 0 && w.sched.permille(w.knobs.write_pending_pm) {
                w.stats.bump("io.write_backpressure");
                cx.waker().wake_by_ref();
                return Poll::Pending;
            }
            let n = match w.knobs.write_quota {
                0 => room,
                1 => room.min(1),
                q => room.min(1 + w.sched.draw(q as u32) as usize),
            };
            if n == 0 {
                // zero-length write request
                return Poll::Ready(Ok(0));
            }
            w.pipe.c2s.extend_from_slice(&buf[..n]);
            if n < buf.len() {
                w.stats.bump("io.short_writes");
            }
            let total = w.pipe.c2s.len();
            if w.record_writes {
                w.ev(EvKind::Write { n, total });
            }
            if let Some(at) = w.pipe.server_close_after {
                if total >= at && !w.pipe.server_closed {
                    w.pipe.server_closed = true;
                    let end = w.pipe.s2c.len();
                    if w.pipe.s2c_end.is_none() {
                        w.pipe.s2c_end = Some((end, EndKind::Eof));
                    }
                    w.fault_fired("server_close_after", at);
                    w.ev(EvKind::SrvClosed { at: end });
                    if let Some(wk) = w.pipe.net_waker.take() {
                        wk.wake();
                    }
                    if let Some(wk) = w.pipe.r_waker.take() {
                        wk.wake();
                    }
                }
            }
            if let Some(wk) = w.pipe.c2s_waker.take() {
                wk.wake();
            }
            Poll::Ready(Ok(n))
        })
    }

    fn poll_flush(self: Pin<&mut Self>, _cx: &mut Context<'_>) -> Poll<io::Result<()>> {
        world::with(|w| {
            w.pipe.flushes += 1;
            w.stats.bump("io.flushes");
            if let Some((nth, kind)) = w.pipe.flush_fault {
                if w.pipe.flushes >= nth {
                    if w.pipe.flushes == nth {
                        w.fault_fired("flush_err", nth);
                    }
                    return Poll::Ready(Err(io_err(kind)));
                }
            }
            Poll::Ready(Ok(()))
        })
    }

    fn poll_shutdown(self: Pin<&mut Self>, _cx: &mut Context<'_>) -> Poll<io::Result<()>> {
        world::with(|w| {
            let first = !w.pipe.client_shutdown;
            w.pipe.client_shutdown = true;
            if first {
                w.stats.bump("io.shutdown");
                if let Some(wk) = w.pipe.c2s_waker.take() {
                    wk.wake();
                }
            }
            if let Some(kind) = w.pipe.shutdown_fault {
                if first {
                    w.fault_fired("shutdown_err", 0);
                }
                return Poll::Ready(Err(io_err(kind)));
            }
            Poll::Ready(Ok(()))
        })
    }
}

impl Drop for SimIo {
    fn drop(&mut self) {
        // The world may already be gone (run torn down) or borrowed (drop during a world access
        // never happens: no ldap3 object is dropped while the world is borrowed).
        let _ = world::try_with(|w| {
            w.pipe.client_dropped = true;
            w.ev(EvKind::TransportDropped);
            if let Some(wk) = w.pipe.c2s_waker.take() {
                wk.wake();
            }
        });
    }
}

// ------------------------------------------------------------------------------------------
// Network actor
// ------------------------------------------------------------------------------------------

pub struct Network {
    sleep: Pin<Box<tokio::time::Sleep>>,
    explicit_ix: usize,
    planned_chunks: usize,
}

impl Network {
    pub fn new() -> Network {
        Network { sleep: Box::pin(tokio::time::sleep(std::time::Duration::from_secs(0))), explicit_ix: 0, planned_chunks: 0 }
    }
}

impl Future for Network {
    type Output = ();
    fn poll(mut self: Pin<&mut Self>, cx: &mut Context<'_>) -> Poll<()> {
        let this = &mut *self;
        loop {
            let next = world::with(|w| {
                let now = w.now_ms();
                // limit of what may ever be delivered
                let limit = match w.pipe.s2c_end {
                    Some((at, _)) => at.min(w.pipe.s2c.len()),
                    None => w.pipe.s2c.len(),
                };
                if let Some((at, _)) = w.pipe.s2c_end {
                    if w.pipe.s2c.len() > at && !w.pipe.cut_noted {
                        w.pipe.cut_noted = true;
                        w.fault_fired("s2c_cut", at);
                    }
                }
                // plan chunks for new bytes
                while w.pipe.net_planned < limit {
                    let start = w.pipe.net_planned;
                    let remaining = limit - start;
                    let size = match &w.knobs.chunking {
                        Chunking::Whole => remaining,
                        Chunking::OneByte => 1,
                        Chunking::Random { max } => {
                            let m = (*max).max(1).min(remaining);
                            1 + w.sched.draw(m as u32) as usize
                        }
                        Chunking::Explicit(v) => {
                            if this.explicit_ix < v.len() {
                                let s = v[this.explicit_ix].max(1);
                                this.explicit_ix += 1;
                                s.min(remaining)
                            } else {
                                remaining
                            }
                        }
                        Chunking::FrameAligned { shift } => {
                            // next frame end after `start`, shifted
                            let fe = w.pipe.s2c_frames.iter().copied().find(|&e| (e as i64 + *shift as i64) > start as i64);
                            match fe {
                                Some(e) => (((e as i64 + *shift as i64) as usize).min(limit) - start).max(1),
                                None => remaining,
                            }
                        }
                    };
                    let size = size.min(remaining).max(1);
                    let explicit_gap = matches!(&w.knobs.chunking, Chunking::Explicit(_)) && this.planned_chunks > 0;
                    this.planned_chunks += 1;
                    let delay = if explicit_gap {
                        1
                    } else if w.knobs.net_delay_max_ms > 0 {
                        w.sched.draw(w.knobs.net_delay_max_ms as u32 + 1) as u64
                    } else {
                        0
                    };
                    let base = w.pipe.net_queue.back().map(|&(t, _)| t).unwrap_or(now).max(now);
                    w.pipe.net_queue.push_back((base + delay, start + size));
                    w.pipe.net_planned = start + size;
                }
                // deliver what is due
                let mut delivered_any = false;
                while let Some(&(t, upto)) = w.pipe.net_queue.front() {
                    if t <= now {
                        w.pipe.net_queue.pop_front();
                        if upto > w.pipe.delivered {
                            w.pipe.delivered = upto;
                            w.ev(EvKind::NetDeliver { upto });
                            delivered_any = true;
                        }
                    } else {
                        break;
                    }
                }
                // the end of the stream becomes visible once everything before it is delivered
                let at_end = matches!(w.pipe.s2c_end, Some((at, _)) if w.pipe.delivered >= at);
                if delivered_any || at_end {
                    if let Some(wk) = w.pipe.r_waker.take() {
                        wk.wake();
                    }
                }
                w.pipe.net_waker = Some(cx.waker().clone());
                // end of a write stall
                let mut next = w.pipe.net_queue.front().map(|&(t, _)| t);
                if let Some(until) = w.pipe.stall_until {
                    if now >= until {
                        if let Some(wk) = w.pipe.w_waker.take() {
                            wk.wake();
                        }
                    } else if w.pipe.w_waker.is_some() {
                        next = Some(next.map_or(until, |t| t.min(until)));
                    }
                }
                next.map(|t| (t, w.start))
            });
            match next {
                None => return Poll::Pending,
                Some((t, start)) => {
                    let deadline = start + std::time::Duration::from_millis(t);
                    this.sleep.as_mut().reset(deadline);
                    match this.sleep.as_mut().poll(cx) {
                        Poll::Ready(()) => continue,
                        Poll::Pending => return Poll::Pending,
                    }
                }
            }
        }
    }
}

/// Is the network idle (nothing sent but undelivered)?
pub fn net_idle() -> bool {
    world::with(|w| {
        let limit = match w.pipe.s2c_end {
            Some((at, _)) => at.min(w.pipe.s2c.len()),
            None => w.pipe.s2c.len(),
        };
        w.pipe.delivered >= limit
    })
}
