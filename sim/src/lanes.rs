//! Lanes: (property, family) pairs with generator, run configuration, oracle and the rule
//! that says when a run was non-trivial for the property.

use crate::gen;
use crate::oracle::{self, Violation};
use crate::rng::mix;
use crate::runner::{self, RunCfg, RunResult};
use crate::scenario::Scenario;
use crate::world::{EvKind, Sched};

pub struct Lane {
    pub prop: &'static str,
    pub family: &'static str,
    pub gen: fn(u64) -> Scenario,
    pub cfg: fn(&Scenario, &mut RunCfg),
    pub check: fn(&Scenario, &RunResult) -> Vec<Violation>,
    /// did the property's own trigger occur in this run?
    pub nontrivial: fn(&Scenario, &RunResult) -> bool,
    pub rule: &'static str,
    /// run function other than the simulator (establishment lanes)
    pub runner: Option<fn(&Scenario, &RunCfg) -> RunResult>,
    /// several runs per index (fault sweeps): returns the cases of this index
    pub expand: Option<fn(&Lane, u64, u64) -> Vec<Case>>,
    /// runs for the quick / thorough tier
    pub quick: u64,
    pub thorough: u64,
}

fn cfg_default(_sc: &Scenario, _c: &mut RunCfg) {}

/// at least two operations overlapped on the wire (second request arrived before the first was fully answered)
fn overlap(_sc: &Scenario, rr: &RunResult) -> bool {
    let mut open = 0i32;
    let mut seen_overlap = false;
    let mut outstanding: std::collections::BTreeSet<i64> = Default::default();
    for e in &rr.hist {
        match &e.kind {
            EvKind::SrvRecv { id, kind, .. } => {
                if kind != "abandon" && kind != "unbind" {
                    outstanding.insert(*id);
                    open += 1;
                    if outstanding.len() >= 2 {
                        seen_overlap = true;
                    }
                }
            }
            EvKind::SrvEmit { id, label, .. } => {
                if label.ends_with(":reply") || label.ends_with(":done") {
                    outstanding.remove(id);
                }
            }
            _ => {}
        }
    }
    let _ = open;
    seen_overlap
}

pub fn lanes() -> Vec<Lane> {
    let mut v = lanes_base();
    v.push(fault_lane());
    v.push(frame_lane());
    v.push(Lane {
        prop: "C04",
        family: "PAGEDFAULT",
        gen: gen::gen_paged_fault_base,
        cfg: cfg_default,
        check: oracle::check_c04_paged,
        nontrivial: fault_nontrivial,
        rule: "per index one paged search (PagedResults alone or with EntriesOnly, 2-12 entries, page sizes 1-3); reference run, then EOF and reset at every response frame boundary and at a sample of offsets inside frames; non-trivial = the fault fired while a call was waiting; distinct = distinct history-shape hash",
        runner: None,
        expand: Some(expand_paged_fault),
        quick: 600,
        thorough: 20_000,
    });
    v.push(Lane {
        prop: "C16",
        family: "PAGEDFAULT",
        gen: gen::gen_paged_fault_base,
        cfg: cfg_default,
        check: oracle::check_c16_fault,
        nontrivial: fault_nontrivial,
        rule: "the PAGEDFAULT sweep (one paged search per index; EOF and reset at every response frame boundary and inside frames) under C16's fault-tolerant clauses: the entries handed out are a prefix of the result set, each exactly once and in order, the end is reported only after the last page, and no result returned by finish() carries a paging control; non-trivial = the fault fired while a call was waiting; distinct = distinct history-shape hash",
        runner: None,
        expand: Some(expand_paged_fault),
        quick: 300,
        thorough: 10_000,
    });
    v.push(Lane {
        prop: "C02",
        family: "PAGED",
        gen: gen::gen_paged,
        cfg: cfg_default,
        check: oracle::check_c02_paged,
        nontrivial: paged_nontrivial,
        rule: "PAGED scenarios under the request model: every SearchRequest of a paged search (first and follow-up pages) carries the caller's base, scope, filter, attributes, search options and other controls; non-trivial = at least two pages were fetched; distinct = distinct history-shape hash",
        runner: None,
        expand: None,
        quick: 40_000,
        thorough: 1_000_000,
    });
    v.push(Lane {
        prop: "C03",
        family: "PAGED",
        gen: gen::gen_paged,
        cfg: cfg_default,
        check: oracle::check_c03_paged,
        nontrivial: paged_nontrivial,
        rule: "PAGED scenarios under the response model: the final result of a paged search carries the code, text and the other response controls of the last page exactly as the server encoded them, in the server's order (0-4 other controls, the paging control anywhere among them); non-trivial = at least two pages were fetched; distinct = distinct history-shape hash",
        runner: None,
        expand: None,
        quick: 40_000,
        thorough: 1_000_000,
    });
    v.push(Lane {
        prop: "C10",
        family: "PAGED",
        gen: gen::gen_paged,
        cfg: cfg_default,
        check: oracle::check_c10_paged,
        nontrivial: paged_nontrivial,
        rule: "PAGED scenarios under the stream model: a stream behind the PagedResults adapter yields the server's entries in order, then Ok(None); finish() returns the server's final result with its controls (88 if finished early, 80 the second time); non-trivial = at least two pages were fetched; distinct = distinct history-shape hash",
        runner: None,
        expand: None,
        quick: 40_000,
        thorough: 1_000_000,
    });
    v.push(Lane {
        prop: "C04",
        family: "REALIO",
        gen: gen::gen_realio,
        cfg: cfg_default,
        check: oracle::check_c04_real,
        nontrivial: estab_nontrivial,
        rule: "seeded cases on the transports the simulator replaces by its in-memory pipe: kernel TCP (dialled or pre-opened), Unix sockets (ldapi URL or pre-opened pair), TLS (ldaps) and StartTLS through native-tls/OpenSSL, asynchronous and synchronous API; StartTLS also over a pre-opened TCP stream; 0-3 answered binds, then one ending: unbind with a surviving clone, all handles dropped, the peer closes / resets / sends an undecodable frame while 1-4 operations wait, the peer closes while nothing waits, the peer hangs up at accept (on a busy runtime, so that the end of the stream is known before the driver's first poll); clauses: every waiting operation returns an error, drive() returns, an operation started afterwards fails, and after unbind resp. the last drop the scripted peer sees the end of the client's stream - each within a 5 s real-time guard that only expires on a violation; non-trivial = not skipped for environment reasons; distinct = distinct (transport, API, ending, warm-up, observation) tuples",
        runner: Some(crate::realio::run),
        expand: None,
        quick: 1_500,
        thorough: 40_000,
    });
    v.push(Lane {
        prop: "C18",
        family: "ESTABURL",
        gen: gen::gen_estab_url,
        cfg: cfg_default,
        check: oracle::check_c18,
        nontrivial: estab_nontrivial,
        rule: "seeded URL x settings combinations through the real LdapConnAsync::with_settings (paused clock, real loopback sockets) and LdapConn::with_settings (cases without timers): schemes ldap / ldaps / ldapi / unknown / unparsable, host as IPv4, name, bracketed IPv6 or absent, explicit or default port (389 / 636 bound by the harness under a cross-process lock), ldapi socket names needing percent-encoding, empty path, path with port, StartTLS flag, pre-opened TCP / Unix / invalid stream, connection timeout against a stalling peer; non-trivial = the case was not skipped for environment reasons; distinct = distinct (URL shape, outcome class) pairs",
        runner: Some(crate::estab::run),
        expand: None,
        quick: 3_000,
        thorough: 60_000,
    });
    v.push(Lane {
        prop: "C17",
        family: "ESTABTLS",
        gen: gen::gen_estab_tls,
        cfg: cfg_default,
        check: oracle::check_c17,
        nontrivial: estab_nontrivial,
        rule: "seeded establishment scripts through the real with_settings against a scripted TLS-capable peer (CA and localhost leaf generated at start-up): ldaps and ldap+StartTLS; StartTLS answered with success, non-zero codes, garbage, close, silence (with conn_timeout), success plus an injected cleartext reply for the next message ID; TLS handshake good / refused / garbage / silent; default or CA-trusting connector, no_tls_verify, matching or mismatching host name, pre-opened TCP stream; after a successful establishment one bind inside TLS; non-trivial = not skipped; distinct = distinct (behaviour, configuration, outcome) triples",
        runner: Some(crate::estab::run),
        expand: None,
        quick: 2_000,
        thorough: 40_000,
    });
    v.push(Lane {
        prop: "C11",
        family: "HOSTILE",
        gen: gen::gen_hostile,
        cfg: cfg_small_stack,
        check: oracle::check_c11,
        nontrivial: hostile_nontrivial,
        rule: "seeded HOSTILE scenarios (1-3 pending single operations or searches; one hostile item spliced in at a response frame boundary, followed by the valid replies; the server closes one simulated second after its last byte): random bytes, bit flips, every single-field mutation of a valid frame (outer tag/class/form, message ID missing / wrong tag / constructed / empty, protocolOp missing, inner lengths inflated and truncated, outer length inflated and truncated, operations of the wrong kind for the ID, oversize and indefinite length octets, malformed control lists and result bodies, huge announced length), nesting depths 10 .. 200 000 of universal, context- and application-class elements; in a third of the runs nothing follows the item for 5-300 ms; each run on a thread with a 2 MiB stack inside a supervised worker process; non-trivial = the hostile item was delivered while a call was waiting; distinct = distinct (mutation class, history-shape) pairs",
        runner: None,
        expand: None,
        quick: 60_000,
        thorough: 1_500_000,
    });
    v.push(Lane {
        prop: "C14",
        family: "SYNC",
        gen: gen::gen_sync,
        cfg: cfg_default,
        check: oracle::check_c14,
        nontrivial: sync_nontrivial,
        rule: "seeded SYNC scripts (2-9 calls over the whole LdapConn / EntryStream surface incl. modifiers set per call or earlier, streams with and without EntriesOnly, a final paged search, last_id, is_closed, get_peer_certificate, refused calls; server plans: results of every code class, silence with a timeout, searches never finished, delayed replies, disconnect at a random request index, idle hang-up, unbind); each script runs once through Ldap / SearchStream on the simulator's executor and once through LdapConn / EntryStream (hook H5) on the same kind of paused-clock runtime; non-trivial = the script used a modifier, a stream, a timeout or met a disconnect; distinct = distinct history-shape hash of the asynchronous run",
        runner: None,
        expand: None,
        quick: 60_000,
        thorough: 1_500_000,
    });
    v.push(Lane {
        prop: "C16",
        family: "PAGED",
        gen: gen::gen_paged,
        cfg: cfg_default,
        check: oracle::check_c16,
        nontrivial: paged_nontrivial,
        rule: "seeded PAGED scenarios (paging server model: 0-200 entries, honours / caps / ignores the page size, random cookies of 1-64 bytes incl. NUL and bytes >= 0x80, empty first page, no paging support; page sizes 0-1000; adapter alone, before or behind EntriesOnly; accompanying controls and options; caller-supplied paging control; streams read to the end or finished early; 1-2 concurrent clients); non-trivial = at least two pages were fetched; distinct = distinct history-shape hash",
        runner: None,
        expand: None,
        quick: 100_000,
        thorough: 3_000_000,
    });
    v.push(Lane {
        prop: "C02",
        family: "SEQ",
        gen: gen::gen_seq,
        cfg: cfg_default,
        check: oracle::check_c02,
        nontrivial: seq_nontrivial,
        rule: "seeded SEQ scenarios (one handle, 2-10 calls over every operation kind with generated DNs, byte values incl. NUL / non-UTF-8 / 20 KB, empty and 50-element lists, filters rendered from generated syntax trees with three escaping styles, all search options, 0-4 controls; modifiers set per call, by a separate earlier call, overwritten, or followed by an operation that ignores them; calls refused before sending); non-trivial = at least one request carried controls or non-default search options, or a modifier was set before an operation that does not use it; distinct = distinct history-shape hash",
        runner: None,
        expand: None,
        quick: 150_000,
        thorough: 4_000_000,
    });
    v.push(Lane {
        prop: "C02",
        family: "MUX",
        gen: gen::gen_mux,
        cfg: cfg_default,
        check: oracle::check_c02,
        nontrivial: overlap,
        rule: "MUX scenarios: the request model is applied to concurrent handles (per-handle modifier state); non-trivial = two operations outstanding at once",
        runner: None,
        expand: None,
        quick: 50_000,
        thorough: 1_000_000,
    });
    v.push(Lane {
        prop: "C03",
        family: "SEQ",
        gen: gen::gen_seq,
        cfg: cfg_default,
        check: oracle::check_c03,
        nontrivial: seq_resp_nontrivial,
        rule: "seeded SEQ scenarios: every response type with result codes 0..123 and random codes up to 2^31-1, empty / multi-byte / 20 KB matched-DN and diagnostic strings, 0-4 referral URIs, 0-4 response controls with absent / TRUE / explicit FALSE criticality and absent / empty / non-empty value, extended name/value in all presence combinations, server SASL credentials, every TLV encoded with 0-3 superfluous length octets; non-trivial = a response carried controls, referrals or a non-minimal length form; distinct = distinct history-shape hash",
        runner: None,
        expand: None,
        quick: 150_000,
        thorough: 4_000_000,
    });
    v.push(Lane {
        prop: "C03",
        family: "MUX",
        gen: gen::gen_mux,
        cfg: cfg_default,
        check: oracle::check_c03_mux,
        nontrivial: overlap,
        rule: "MUX scenarios: returned values against the response model under concurrency; non-trivial = two operations outstanding at once",
        runner: None,
        expand: None,
        quick: 50_000,
        thorough: 1_000_000,
    });
    v
}

fn lanes_base() -> Vec<Lane> {
    vec![Lane {
        prop: "C01",
        family: "MUX",
        gen: gen::gen_mux,
        cfg: cfg_default,
        check: oracle::check_c01,
        nontrivial: overlap,
        rule: "seeded MUX scenarios (1-5 handles, 1-8 steps each; shapes: in-flight abandon of an operation or of a stream that is being read, with late traffic; ID recycling with a held or an orphaned search; counter passing the top of the ID space under ID-0 notices; dropped search start with the ID re-issued); non-trivial = at least two operations were outstanding at the server at once; distinct = distinct history-shape hash (sequence of event kinds and actors, values abstracted)",
        runner: None,
        expand: None,
        quick: 200_000,
        thorough: 5_000_000,
    },
    Lane {
        prop: "C10",
        family: "STREAM",
        gen: gen::gen_stream,
        cfg: cfg_strict_stream,
        check: oracle::check_c10,
        nontrivial: stream_nontrivial,
        rule: "seeded STREAM scenarios (1-2 clients, 1-3 searches each: direct / EntriesOnly / search(), 0-12 items of three kinds, call sequences of up to 16 next/finish/state calls incl. after the end and repeated finish, per-item timeouts in a quarter of the runs); non-trivial = at least one call was made on a stream outside the Active state or a stream was finished before its end; distinct = distinct history-shape hash",
        runner: None,
        expand: None,
        quick: 150_000,
        thorough: 4_000_000,
    },
    Lane {
        prop: "C13",
        family: "LEAK",
        gen: gen::gen_leak,
        cfg: cfg_default,
        check: oracle::check_c13,
        nontrivial: leak_nontrivial,
        rule: "seeded LEAK scenarios (1-3 clients, 1-5 rounds of 1-5 lifecycles each: completed/failed single operations, timeouts with late replies, abandons of finished / timed-out / in-flight operations, search(), direct and adapted streams read to the end / finished early / finished twice / timed out / failed by an adapter of the caller's own, search starts dropped after a poll or two, a peer that stops reading for a while, unsolicited traffic; a barrier and a table snapshot at quiescence after every round); non-trivial = a checkpoint was taken after at least three completed calls; distinct = distinct history-shape hash",
        runner: None,
        expand: None,
        quick: 100_000,
        thorough: 3_000_000,
    },
    Lane {
        prop: "C05",
        family: "IDS",
        gen: gen::gen_ids,
        cfg: cfg_alloc_snap,
        check: oracle::check_c05,
        nontrivial: ids_nontrivial,
        rule: "seeded IDS scenarios (2-6 handles, up to 60 operations, counter pre-positioned at 2^31-1-k with k<=64 or elsewhere, up to 40 pre-seeded in-use IDs incl. 1, MAX, low runs and IDs just above the counter; searches kept outstanding while the counter is moved to just below their ID; H3 yield rate up to 1.0); non-trivial = the allocator wrapped around or skipped an in-use ID in this run; distinct = distinct history-shape hash",
        runner: None,
        expand: None,
        quick: 150_000,
        thorough: 4_000_000,
    },
    Lane {
        prop: "C12",
        family: "TIME",
        gen: gen::gen_time,
        cfg: cfg_default,
        check: oracle::check_c12,
        nontrivial: time_nontrivial,
        rule: "seeded TIME scenarios (1-3 clients, 1-6 operations each: timed / untimed single operations, search() and streams; timeouts 1 ms - 60 s; reply delays and item gaps at 0, T/2, T-1, T, T+1, 2T, 3T and random around T; silent servers; timed calls refused locally; paged searches against a server that stalls on a page; a peer that stops reading; barriers); non-trivial = at least one call returned a timeout or returned a reply that arrived within 2 ms of its deadline; distinct = distinct history-shape hash",
        runner: None,
        expand: None,
        quick: 150_000,
        thorough: 4_000_000,
    },
    Lane {
        prop: "C05",
        family: "MUX",
        gen: gen::gen_mux,
        cfg: cfg_default,
        check: oracle::check_c05_mux,
        nontrivial: overlap,
        rule: "MUX scenarios as a by-product: server-side ID checks only; non-trivial = at least two operations outstanding at once",
        runner: None,
        expand: None,
        quick: 50_000,
        thorough: 1_000_000,
    }]
}

fn leak_nontrivial(_sc: &Scenario, rr: &RunResult) -> bool {
    // at least one checkpoint was taken while the driver was alive after >= 3 completed lifecycles
    let mut rets = 0;
    for e in &rr.hist {
        match &e.kind {
            EvKind::Return { .. } => rets += 1,
            EvKind::Snapshot { .. } if rets >= 3 => return true,
            _ => {}
        }
    }
    false
}

fn cfg_alloc_snap(_sc: &Scenario, c: &mut RunCfg) {
    c.alloc_snap = true;
}

fn ids_nontrivial(_sc: &Scenario, rr: &RunResult) -> bool {
    // wrap-around or a skip: some allocation is not last+1
    let mut prev: Option<(usize, usize, i32)> = None;
    for e in &rr.hist {
        if let EvKind::AllocSnap { client, step, last, .. } = &e.kind {
            match prev.take() {
                Some((c, s, l0)) if c == *client && s == *step => {
                    if *last != l0 && *last as i64 != l0 as i64 + 1 {
                        return true;
                    }
                }
                _ => prev = Some((*client, *step, *last)),
            }
        }
    }
    false
}

fn time_nontrivial(_sc: &Scenario, rr: &RunResult) -> bool {
    rr.hist.iter().any(|e| matches!(&e.kind, EvKind::Return { ret: crate::world::Ret::Err(crate::world::ErrC::Timeout), .. }))
}

fn seq_nontrivial(sc: &Scenario, rr: &RunResult) -> bool {
    let _ = sc;
    rr.requests.iter().any(|q| q.ctrls.is_some() || matches!(&q.op, crate::msg::ReqOp::Search { deref, size, time, types_only, .. } if *deref != 0 || *size != 0 || *time != 0 || *types_only))
}

fn seq_resp_nontrivial(sc: &Scenario, _rr: &RunResult) -> bool {
    sc.knobs.lenform_extra_max > 0
        || sc.plan.by_token.values().any(|p| match p {
            crate::scenario::ReplyPlan::Single { res, ctrls, .. } => ctrls.is_some() || res.refs.is_some(),
            crate::scenario::ReplyPlan::Items { done: Some(d), .. } => d.ctrls.is_some() || d.res.refs.is_some(),
            _ => false,
        })
}

fn paged_nontrivial(_sc: &Scenario, rr: &RunResult) -> bool {
    rr.requests.iter().filter(|q| matches!(q.op, crate::msg::ReqOp::Search { .. })).count() >= 2
}

fn sync_nontrivial(sc: &Scenario, rr: &RunResult) -> bool {
    sc.plan.close_on_arrival.is_some()
        || rr.requests.iter().any(|q| q.ctrls.is_some())
        || sc.clients[0].steps.iter().any(|s| matches!(s, crate::scenario::Step::Open { .. } | crate::scenario::Step::SetMods { .. }))
        || rr.hist.iter().any(|e| matches!(&e.kind, EvKind::Return { ret: crate::world::Ret::Err(crate::world::ErrC::Timeout), .. }))
}

fn cfg_small_stack(_sc: &Scenario, c: &mut RunCfg) {
    c.stack_kib = Some(2048);
    c.watchdog_ms = 600_000;
}

fn hostile_nontrivial(_sc: &Scenario, rr: &RunResult) -> bool {
    rr.hist.iter().any(|e| matches!(&e.kind, EvKind::SrvEmit { label, .. } if label == "hostile"))
}

fn estab_nontrivial(_sc: &Scenario, rr: &RunResult) -> bool {
    !rr.stats.counters.contains_key("estab.skipped")
}

fn cfg_strict_stream(_sc: &Scenario, c: &mut RunCfg) {
    c.next_after_end = true;
}

fn stream_nontrivial(sc: &Scenario, rr: &RunResult) -> bool {
    // a stream call after the end / after finish, or an early finish: visible as Item(None) returned twice,
    // a Fin with code 88 or 80, or a State return
    let mut nones = 0;
    for e in &rr.hist {
        if let EvKind::Return { ret, .. } = &e.kind {
            match ret {
                crate::world::Ret::Item(None) => nones += 1,
                crate::world::Ret::Fin(r) if r.rc == 88 || r.rc == 80 => return true,
                crate::world::Ret::Err(_) => return true,
                _ => {}
            }
        }
    }
    let _ = sc;
    nones >= 2
}

pub fn lanes_for(prop: &str) -> Vec<Lane> {
    // the binary built against ldap3's rustls backend only runs the lanes in which TLS code runs at all
    let on_real_transport = |f: &str| matches!(f, "REALIO" | "ESTABURL" | "ESTABTLS");
    lanes().into_iter().filter(|l| l.prop == prop && (!cfg!(feature = "rustls-backend") || on_real_transport(l.family))).collect()
}

pub fn family_id(f: &str) -> u64 {
    f.bytes().fold(0xcbf2_9ce4_8422_2325u64, |h, b| (h ^ b as u64).wrapping_mul(0x100_0000_01b3))
}

pub struct Seeds {
    pub run: u64,
    pub scenario: u64,
    pub sched: u64,
    pub tokio: u64,
}

pub fn seeds(verif_seed: u64, family: &str, index: u64) -> Seeds {
    let run = mix(&[verif_seed, family_id(family), index]);
    Seeds { run, scenario: mix(&[run, 1]), sched: mix(&[run, 2]), tokio: mix(&[run, 3]) }
}

/// One run to perform: scenario, schedule source description and configuration.
pub struct Case {
    pub sc: Scenario,
    /// replay this trace (then continue from `cfg.diverge_seed` once a fault fired) instead of a fresh PRNG
    pub trace: Option<Vec<u32>>,
    pub sched_seed: u64,
    pub cfg: RunCfg,
    pub label: String,
    pub runner: Option<fn(&Scenario, &RunCfg) -> RunResult>,
}

impl Case {
    pub fn run(&self) -> RunResult {
        if let Some(f) = self.runner {
            return f(&self.sc, &self.cfg);
        }
        let sched = match &self.trace {
            Some(t) => Sched::from_trace(t.clone(), Some(self.sched_seed)),
            None => Sched::from_seed(self.sched_seed),
        };
        runner::run(&self.sc, sched, &self.cfg)
    }
}

/// The cases of index `index` of a lane (one, unless the lane expands into a sweep).
pub fn cases(lane: &Lane, verif_seed: u64, index: u64) -> Vec<Case> {
    if let Some(f) = lane.expand {
        return f(lane, verif_seed, index);
    }
    let s = seeds(verif_seed, lane.family, index);
    let sc = (lane.gen)(s.scenario);
    let mut cfg = RunCfg { tokio_seed: s.tokio, ..Default::default() };
    (lane.cfg)(&sc, &mut cfg);
    vec![Case { sc, trace: None, sched_seed: s.sched, cfg, label: String::new(), runner: lane.runner }]
}

/// Execute case `case` of run `index` of a lane.
pub fn execute_case(lane: &Lane, verif_seed: u64, index: u64, case: usize) -> (Scenario, RunCfg, RunResult) {
    let mut cs = cases(lane, verif_seed, index);
    let c = cs.swap_remove(case.min(cs.len() - 1));
    let rr = c.run();
    (c.sc, c.cfg, rr)
}

pub fn execute(lane: &Lane, verif_seed: u64, index: u64) -> (Scenario, RunCfg, RunResult) {
    execute_case(lane, verif_seed, index, 0)
}

/// Shape hash: the history with values abstracted (event kind + actor/label class).
pub fn shape_hash(rr: &RunResult) -> u64 {
    let mut h: u64 = 0xcbf2_9ce4_8422_2325;
    let mut put = |x: u64| {
        h = (h ^ x).wrapping_mul(0x100_0000_01b3);
    };
    for e in &rr.hist {
        match &e.kind {
            EvKind::Invoke { client, what, .. } => {
                put(1);
                put(*client as u64);
                put(family_id(what));
            }
            EvKind::Return { client, ret, .. } => {
                put(2);
                put(*client as u64);
                put(ret_tag(ret));
            }
            EvKind::SrvRecv { kind, .. } => {
                put(3);
                put(family_id(kind));
            }
            EvKind::SrvEmit { label, .. } => {
                put(4);
                put(family_id(label.rsplit(':').next().unwrap_or("")));
            }
            EvKind::NetDeliver { .. } => {}
            EvKind::Fault { what, .. } => {
                put(6);
                put(family_id(what));
            }
            EvKind::DriverExit { ok, .. } => {
                put(7);
                put(*ok as u64);
            }
            EvKind::Panic { .. } => put(8),
            EvKind::Snapshot { in_use, resultmap, searchmap, .. } => {
                put(9);
                put(in_use.len() as u64);
                put(resultmap.len() as u64);
                put(searchmap.len() as u64);
            }
            EvKind::Hang => put(10),
            EvKind::ReadEnd { .. } => put(11),
            EvKind::SrvSawShutdown => put(12),
            EvKind::SrvSawClose => put(13),
            EvKind::SrvClosed { .. } => put(14),
            EvKind::TransportDropped => put(15),
            EvKind::ClientDone { client } => {
                put(16);
                put(*client as u64);
            }
            EvKind::Note(n) if n.starts_with("realio ") => put(family_id(n)),
            EvKind::Note(n) if n.starts_with("estab ") => {
                // establishment lanes: the observation minus times is the shape
                if let Ok(o) = serde_json::from_str::<crate::estab::EstabObs>(&n[6..]) {
                    put(family_id(&o.url));
                    put(family_id(o.outcome.split(':').take(2).collect::<Vec<_>>().join(":").as_str()));
                    put(family_id(&o.reached.join(",")));
                    put(family_id(&o.peer.cleartext));
                    put(o.peer.handshake_completed as u64);
                    put(family_id(o.bind.as_deref().unwrap_or("-")));
                }
            }
            _ => put(17),
        }
    }
    h
}

fn ret_tag(r: &crate::world::Ret) -> u64 {
    use crate::world::Ret::*;
    match r {
        Res(_) => 1,
        Exop { .. } => 2,
        Cmp(_) => 3,
        Search { entries, .. } => 100 + entries.len() as u64,
        Unit => 4,
        Opened => 5,
        Item(Some(_)) => 6,
        Item(None) => 7,
        Fin(r) => 1000 + r.rc as u64,
        State(_) => 8,
        Probe { .. } => 9,
        Cert(_) => 13,
        Err(e) => 2000 + err_tag(e),
        Cancelled => 10,
        Panicked(_) => 11,
        Skipped => 12,
    }
}

fn err_tag(e: &crate::world::ErrC) -> u64 {
    use crate::world::ErrC::*;
    match e {
        Io(_) => 1,
        OpSend => 2,
        ResultRecv => 3,
        IdScrubSend => 4,
        MiscSend => 5,
        Timeout => 6,
        FilterParsing => 7,
        EndOfStream => 8,
        AdapterInit(_) => 9,
        AddNoValues => 10,
        LdapResult(_) => 11,
        Other(_) => 12,
    }
}

// ---------------------------------------------------------------------------------------------
// FAULT: fault enumeration over every byte boundary of one exchange
// ---------------------------------------------------------------------------------------------

pub fn tier() -> String {
    std::env::var("LDAPSIM_TIER").unwrap_or_else(|_| "quick".into())
}

fn expand_fault(lane: &Lane, verif_seed: u64, index: u64) -> Vec<Case> {
    use crate::scenario::{Fault, Hostile, IoKind, Mods, OpSpec, Step};
    let s = seeds(verif_seed, lane.family, index);
    let base = (lane.gen)(s.scenario);
    let cfg0 = || RunCfg { tokio_seed: s.tokio, ..Default::default() };
    // reference run
    let rref = runner::run(&base, Sched::from_seed(s.sched), &cfg0());
    let lc = rref.c2s.len();
    let ls = rref.s2c.len();
    let n_emissions = rref.hist.iter().filter(|e| matches!(e.kind, EvKind::SrvEmit { .. })).count();
    let flushes = rref.stats.counters.get("io.flushes").copied().unwrap_or(0) as usize;
    let mut out = vec![Case { sc: base.clone(), trace: None, sched_seed: s.sched, cfg: cfg0(), label: "reference".into(), runner: None }];
    let thorough = tier() == "thorough";
    let stride_s = if thorough || ls <= 400 { 1 } else { ls / 400 + 1 };
    let stride_c = if thorough || lc <= 400 { 1 } else { lc / 400 + 1 };
    let mut rng = crate::rng::Rng::new(mix(&[s.run, 77]));
    let mut add = |f: Fault, label: String, fresh: bool, out: &mut Vec<Case>| {
        let mut sc = base.clone();
        sc.faults = vec![f];
        let k = out.len() as u64;
        if fresh {
            out.push(Case { sc, trace: None, sched_seed: mix(&[s.sched, k]), cfg: cfg0(), label, runner: None });
        } else {
            let cfg = RunCfg { diverge_seed: Some(mix(&[s.sched, k, 5])), ..cfg0() };
            out.push(Case { sc, trace: Some(rref.trace.clone()), sched_seed: mix(&[s.sched, k, 6]), cfg, label, runner: None });
        }
    };
    let kinds = [IoKind::Reset, IoKind::Aborted, IoKind::TimedOut, IoKind::Other, IoKind::BrokenPipe];
    let mut at = 0;
    while at <= ls {
        add(Fault::EofAt { at }, format!("eof@{at}"), false, &mut out);
        add(Fault::ReadErrAt { at, kind: IoKind::Reset }, format!("reset@{at}"), false, &mut out);
        if rng.chance(1, 7) {
            let k = *rng.pick(&kinds);
            add(Fault::ReadErrAt { at, kind: k }, format!("readerr{:?}@{at}", k), false, &mut out);
        }
        if rng.chance(1, 10) {
            // second pass: same fault under a fresh schedule from the start
            add(Fault::EofAt { at }, format!("eof@{at}/fresh"), true, &mut out);
        }
        at += stride_s;
    }
    let mut at = 0;
    while at <= lc {
        add(Fault::WriteErrAt { at, kind: IoKind::BrokenPipe }, format!("writeerr@{at}"), false, &mut out);
        add(Fault::ServerCloseAfter { at }, format!("srvclose@{at}"), false, &mut out);
        if rng.chance(1, 7) {
            let k = *rng.pick(&kinds);
            add(Fault::WriteErrAt { at, kind: k }, format!("writeerr{:?}@{at}", k), false, &mut out);
        }
        if rng.chance(1, 10) {
            add(Fault::WriteErrAt { at, kind: IoKind::Reset }, format!("writeerr@{at}/fresh"), true, &mut out);
        }
        at += stride_c;
    }
    for nth in 1..=flushes.min(40) {
        add(Fault::FlushErr { nth, kind: IoKind::BrokenPipe }, format!("flusherr#{nth}"), false, &mut out);
    }
    // undecodable frames of several kinds at every frame boundary
    let undecodable: [(&str, Vec<u8>); 4] = [
        ("not-a-sequence", vec![0x04, 0x01, 0x00]),
        ("indefinite-length-envelope", vec![0x30, 0x80, 0x02, 0x01, 0x01, 0x61, 0x07, 0x0a, 0x01, 0x00, 0x04, 0x00, 0x04, 0x00]),
        ("empty-envelope", vec![0x30, 0x00]),
        ("bare-integer", vec![0x02, 0x01, 0x05]),
    ];
    for j in 0..n_emissions {
        for (class, bytes) in undecodable.iter() {
            let mut sc = base.clone();
            sc.plan.hostile = Some(Hostile { before_emission: j, class: class.to_string(), bytes: bytes.clone(), must_end: true, nest: None, outer_inflated: false, gap_after_ms: 0, nest_tag: 0 });
            let k = out.len() as u64;
            out.push(Case { sc, trace: Some(rref.trace.clone()), sched_seed: mix(&[s.sched, k, 6]), cfg: RunCfg { diverge_seed: Some(mix(&[s.sched, k, 5])), ..cfg0() }, label: format!("undecodable({class})-before-emission#{j}"), runner: None });
        }
    }
    // unbind issued by one handle at every step index; handles dropped at every step index
    for (ci, cs) in base.clients.iter().enumerate() {
        if ci + 1 == base.clients.len() {
            continue; // not the late client
        }
        for p in 0..=cs.steps.len() {
            let mut sc = base.clone();
            sc.clients[ci].steps.insert(p, Step::Op { token: format!("unbind{ci}_{p}"), op: OpSpec::Unbind, mods: Mods::default(), cancel_after_polls: None });
            if rng.chance(1, 4) {
                sc.faults = vec![Fault::ShutdownErr { kind: IoKind::Other }];
            }
            let k = out.len() as u64;
            out.push(Case { sc, trace: None, sched_seed: mix(&[s.sched, k]), cfg: cfg0(), label: format!("unbind@c{ci}p{p}"), runner: None });
            let mut sc = base.clone();
            sc.clients[ci].steps.insert(p, Step::DropHandle);
            let k = out.len() as u64;
            out.push(Case { sc, trace: None, sched_seed: mix(&[s.sched, k]), cfg: cfg0(), label: format!("drophandle@c{ci}p{p}"), runner: None });
        }
    }
    out
}

fn fault_nontrivial(sc: &Scenario, rr: &RunResult) -> bool {
    // the fault fired (or unbind / undecodable frame happened) while at least one call was waiting
    let fired = rr.hist.iter().position(|e| match &e.kind {
        EvKind::Fault { .. } => true,
        EvKind::SrvEmit { label, .. } => label == "hostile",
        EvKind::SrvRecv { kind, .. } => kind == "unbind",
        _ => false,
    });
    let Some(p) = fired else { return false };
    let _ = sc;
    let mut pending = 0i32;
    for e in &rr.hist[..p] {
        match &e.kind {
            EvKind::Invoke { .. } => pending += 1,
            EvKind::Return { ret, .. } if !matches!(ret, crate::world::Ret::State(_) | crate::world::Ret::Probe { .. } | crate::world::Ret::Skipped) => pending -= 1,
            _ => {}
        }
    }
    pending > 0
}

pub fn fault_lane() -> Lane {
    Lane {
        prop: "C04",
        family: "FAULT",
        gen: gen::gen_fault_base,
        cfg: cfg_default,
        check: oracle::check_c04,
        nontrivial: fault_nontrivial,
        rule: "per index one seeded exchange (1-3 clients x 1-4 operations/streams + one late operation); a fault-free reference run records the request/response byte lengths Lc, Ls and the decision trace; then one run per (kind, offset): EOF and reset at every response byte boundary 0..=Ls, write error and server-close at every request byte boundary 0..=Lc (stride >1 only in the quick tier for L>400), other error kinds and fresh-schedule repeats at a sample, every flush, an undecodable frame before every response frame, unbind and handle drop at every step index; sweep runs replay the reference trace until the fault fires; non-trivial = the fault fired while a call was waiting; distinct = distinct history-shape hash among those",
        runner: None,
        expand: Some(expand_fault),
        quick: 400,
        thorough: 12_000,
    }
}

// ---------------------------------------------------------------------------------------------
// FRAME: partitions of one response burst
// ---------------------------------------------------------------------------------------------

fn expand_frame(lane: &Lane, verif_seed: u64, index: u64) -> Vec<Case> {
    use crate::scenario::Chunking;
    let s = seeds(verif_seed, lane.family, index);
    let base = (lane.gen)(s.scenario);
    let cfg0 = || RunCfg { tokio_seed: s.tokio, ..Default::default() };
    let rref = runner::run(&base, Sched::from_seed(s.sched), &cfg0());
    // length of the first burst: everything emitted at the first emission instant
    let t_first = rref.hist.iter().find_map(|e| if let EvKind::SrvEmit { .. } = &e.kind { Some(e.t_ms) } else { None }).unwrap_or(0);
    let burst: usize = rref
        .hist
        .iter()
        .filter_map(|e| match &e.kind {
            EvKind::SrvEmit { range, .. } if e.t_ms == t_first => Some(range.1),
            _ => None,
        })
        .max()
        .unwrap_or(0);
    let mut out = vec![Case { sc: base.clone(), trace: None, sched_seed: s.sched, cfg: cfg0(), label: "reference/whole".into(), runner: None }];
    let mut rng = crate::rng::Rng::new(mix(&[s.run, 99]));
    let thorough = tier() == "thorough";
    let mut push = |chunking: Chunking, max_read: usize, pend: u32, rcap: bool, label: String, out: &mut Vec<Case>| {
        let mut sc = base.clone();
        sc.knobs.chunking = chunking;
        sc.knobs.max_read = max_read;
        sc.knobs.read_pending_pm = pend;
        sc.knobs.random_read_cap = rcap;
        let k = out.len() as u64;
        out.push(Case { sc, trace: None, sched_seed: mix(&[s.sched, k]), cfg: cfg0(), label, runner: None });
    };
    // every two-chunk split point of the burst
    let limit = if thorough { 4000 } else { 500 };
    let stride = if burst <= limit { 1 } else { burst / limit + 1 };
    let mut k = 1;
    while k < burst {
        let mr = *rng.pick(&[0usize, 0, 0, 1, 2, 7, 64, 4096]);
        let mr = if burst > 4096 && mr > 0 && mr < 64 { 64 } else { mr };
        push(Chunking::Explicit(vec![k]), mr, 0, false, format!("split@{k}/max_read={mr}"), &mut out);
        k += stride;
    }
    // three-chunk splits at a sample
    for _ in 0..(if thorough { 60 } else { 12 }) {
        if burst > 3 {
            let a = 1 + rng.usize(burst - 2);
            let b = 1 + rng.usize(burst - a - 1).max(0);
            push(Chunking::Explicit(vec![a, b]), 0, 0, false, format!("split3@{a}+{b}"), &mut out);
        }
    }
    let small = burst <= 2048;
    for &mr in &[1usize, 2, 7, 64, 4096, 0] {
        if !small && mr > 0 && mr < 64 {
            continue;
        }
        push(Chunking::Whole, mr, 0, false, format!("whole/max_read={mr}"), &mut out);
        push(Chunking::Whole, mr, 300, false, format!("whole/max_read={mr}/pending-despite-data"), &mut out);
        push(Chunking::Random { max: if small { 16 } else { 2000 } }, mr, 0, false, format!("random/max_read={mr}"), &mut out);
        for shift in [-1, 0, 1] {
            push(Chunking::FrameAligned { shift }, mr, 0, false, format!("frame-aligned{shift:+}/max_read={mr}"), &mut out);
        }
    }
    push(Chunking::Whole, 0, 0, true, "whole/random-read-cap".into(), &mut out);
    if small {
        push(Chunking::OneByte, 0, 0, false, "one-byte".into(), &mut out);
        push(Chunking::OneByte, 1, 100, false, "one-byte/max_read=1/pending".into(), &mut out);
    } else {
        push(Chunking::Random { max: 300 }, 0, 0, false, "random300".into(), &mut out);
    }
    out
}

fn frame_nontrivial(_sc: &Scenario, rr: &RunResult) -> bool {
    // some frame was split across deliveries or reads: a delivery or a short read ended inside a frame
    let mut frame_ends: std::collections::BTreeSet<usize> = Default::default();
    for e in &rr.hist {
        if let EvKind::SrvEmit { range, .. } = &e.kind {
            frame_ends.insert(range.1);
        }
    }
    let split_delivery = rr.hist.iter().any(|e| matches!(&e.kind, EvKind::NetDeliver { upto } if !frame_ends.contains(upto)));
    split_delivery || rr.stats.counters.get("io.short_reads").copied().unwrap_or(0) > 0
}

pub fn frame_lane() -> Lane {
    Lane {
        prop: "C06",
        family: "FRAME",
        gen: gen::gen_frame_base,
        cfg: cfg_default,
        check: oracle::check_c06,
        nontrivial: frame_nontrivial,
        rule: "per index one seeded burst of 1-12 response frames (7 bytes to 65 KB, random legal length forms) for pending operations; partitions: every two-chunk split point (stride >1 only above 500 / 4000 points), three-chunk splits, one byte at a time, frame-aligned and +-1, random chunks, everything at once, each under max_read in {1,2,7,64,4096,unlimited} and with Pending-despite-data; chunks after the first arrive one simulated millisecond later; non-trivial = a delivery or a read ended inside a frame; distinct = distinct history-shape hash",
        runner: None,
        expand: Some(expand_frame),
        quick: 250,
        thorough: 6000,
    }
}

fn expand_paged_fault(lane: &Lane, verif_seed: u64, index: u64) -> Vec<Case> {
    use crate::scenario::{Fault, IoKind};
    let s = seeds(verif_seed, lane.family, index);
    let base = (lane.gen)(s.scenario);
    let cfg0 = || RunCfg { tokio_seed: s.tokio, ..Default::default() };
    let rref = runner::run(&base, Sched::from_seed(s.sched), &cfg0());
    let mut out = vec![Case { sc: base.clone(), trace: None, sched_seed: s.sched, cfg: cfg0(), label: "reference".into(), runner: None }];
    let mut offsets: Vec<usize> = vec![0];
    for e in &rref.hist {
        if let EvKind::SrvEmit { range, .. } = &e.kind {
            offsets.push(range.1);
            offsets.push(range.0 + (range.1 - range.0) / 2);
        }
    }
    offsets.sort();
    offsets.dedup();
    for at in offsets {
        for f in [Fault::EofAt { at }, Fault::ReadErrAt { at, kind: IoKind::Reset }] {
            let mut sc = base.clone();
            sc.faults = vec![f];
            let k = out.len() as u64;
            // the follow-up page requests depend on what was delivered: fresh schedule, no trace replay
            out.push(Case { sc, trace: None, sched_seed: mix(&[s.sched, k]), cfg: cfg0(), label: format!("cut@{at}"), runner: None });
        }
    }
    out
}
