mod batch;
mod ber;
mod client;
mod estab;
mod exec;
mod gen;
mod io;
mod lanes;
mod minimize;
mod model;
mod msg;
mod oracle;
mod realio;
mod rng;
mod runner;
mod scenario;
mod server;
mod syncrun;
mod world;

use std::collections::BTreeMap;
use std::time::Instant;

pub const DEFAULT_SEED: u64 = 20_260_101;

fn arg(args: &[String], name: &str) -> Option<String> {
    args.iter().position(|a| a == name).and_then(|i| args.get(i + 1).cloned())
}

fn verif_seed(args: &[String]) -> u64 {
    arg(args, "--seed")
        .and_then(|s| s.parse().ok())
        .or_else(|| std::env::var("VERIF_SEED").ok().and_then(|s| s.trim().parse().ok()))
        .unwrap_or(DEFAULT_SEED)
}

fn main() {
    let args: Vec<String> = std::env::args().collect();
    // the supervisor (`check`) runs no case itself; every process that does gets the harness CA as its system store
    let runs_cases = matches!(args.get(1).map(|s| s.as_str()), Some("worker") | Some("one") | Some("replay") | Some("selftest"));
    if runs_cases {
        estab::init_system_trust();
    }
    let code = match args.get(1).map(|s| s.as_str()) {
        Some("check") => cmd_check(&args),
        Some("worker") => cmd_worker(&args),
        Some("one") => cmd_one(&args),
        Some("replay") => cmd_replay(&args),
        Some("selftest") => cmd_selftest(&args),
        _ => {
            eprintln!("usage: ldapsim check --prop <id> --tier quick|thorough | replay <file> | one --prop <id> --family <f> --index <n> | selftest determinism");
            2
        }
    };
    if runs_cases {
        estab::drop_system_trust();
    }
    std::process::exit(code);
}

fn find_lane(args: &[String]) -> lanes::Lane {
    let prop = arg(args, "--prop").unwrap_or_default();
    let fam = arg(args, "--family");
    let mut ls = lanes::lanes_for(&prop);
    if let Some(f) = fam {
        ls.retain(|l| l.family == f);
    }
    if ls.is_empty() {
        eprintln!("harness error: no lane for property {prop}");
        std::process::exit(2);
    }
    ls.remove(0)
}

fn cmd_worker(args: &[String]) -> i32 {
    let lane = find_lane(args);
    let seed = verif_seed(args);
    let shard: u64 = arg(args, "--shard").and_then(|s| s.parse().ok()).unwrap_or(0);
    let of: u64 = arg(args, "--of").and_then(|s| s.parse().ok()).unwrap_or(1);
    let count: u64 = arg(args, "--count").and_then(|s| s.parse().ok()).unwrap_or(1);
    let start: u64 = arg(args, "--start").and_then(|s| s.parse().ok()).unwrap_or(0);
    batch::worker(&lane, seed, shard, of, count, start)
}

fn cmd_one(args: &[String]) -> i32 {
    let lane = find_lane(args);
    let seed = verif_seed(args);
    let index: u64 = arg(args, "--index").and_then(|s| s.parse().ok()).unwrap_or(0);
    let quiet = args.iter().any(|a| a == "--quiet");
    let case: usize = arg(args, "--case").and_then(|s| s.parse().ok()).unwrap_or(0);
    let (sc, _cfg, rr) = lanes::execute_case(&lane, seed, index, case);
    let vs = (lane.check)(&sc, &rr);
    if !quiet {
        if args.iter().any(|a| a == "--scenario") {
            println!("{}", serde_json::to_string_pretty(&sc).unwrap());
        }
        let all = args.iter().any(|a| a == "--all");
        for l in batch::history_lines(&rr) {
            if all || !l.contains("NetDeliver") {
                println!("{l}");
            }
        }
        println!("verdict={:?} steps={} hist_hash={:016x} draws={}", rr.verdict, rr.steps, rr.hist_hash, rr.trace.len());
        for v in &vs {
            println!("violation {} {} :: {}", v.clause, v.signature, v.detail);
        }
    }
    if args.iter().any(|a| a == "--report") {
        let cases = lanes::cases(&lane, seed, index);
        let cfg = cases.get(case.min(cases.len().saturating_sub(1))).map(|c| batch::clone_cfg(&c.cfg)).unwrap_or_default();
        let cfg = runner::RunCfg { diverge_seed: None, ..cfg };
        let mut seen = std::collections::BTreeSet::new();
        for v in &vs {
            if !seen.insert(v.key()) {
                continue;
            }
            let rep = batch::Replay {
                property: v.property.clone(),
                clause: v.clause.clone(),
                signature: v.signature.clone(),
                detail: v.detail.clone(),
                family: lane.family.to_string(),
                verif_seed: seed,
                index,
                case,
                kind: "run".into(),
                scenario: Some(sc.clone()),
                trace: rr.trace.clone(),
                cfg: Some(batch::CfgRec::from(&cfg)),
                hist_hash: format!("{:016x}", rr.hist_hash),
                minimised: false,
                history: batch::history_lines(&rr),
            };
            let path = batch::write_replay(&rep);
            println!("V {}", serde_json::to_string(&batch::VReport { violation: v.clone(), replay: path, index }).unwrap());
        }
    }
    if vs.is_empty() {
        0
    } else {
        1
    }
}

fn cmd_replay(args: &[String]) -> i32 {
    let Some(path) = args.get(2) else {
        eprintln!("usage: ldapsim replay <file>");
        return 2;
    };
    let txt = match std::fs::read_to_string(path) {
        Ok(t) => t,
        Err(e) => {
            eprintln!("harness error: {e}");
            return 2;
        }
    };
    let rep: batch::Replay = match serde_json::from_str(&txt) {
        Ok(r) => r,
        Err(e) => {
            eprintln!("harness error: {e}");
            return 2;
        }
    };
    if rep.kind == "process" {
        // re-run by seed in a child process
        let lane = lanes::lanes().into_iter().find(|l| l.prop == rep.property && l.family == rep.family);
        let Some(lane) = lane else {
            eprintln!("harness error: no lane");
            return 2;
        };
        let v = batch::confirm_process_failure(&lane, rep.verif_seed, rep.index, rep.case, "replay");
        if v.iter().any(|r| r.violation.signature == rep.signature) {
            println!("VIOLATION property={} replay={}", rep.property, path);
            return 1;
        }
        println!("not reproduced");
        return 0;
    }
    match batch::replay_file(path) {
        Err(e) => {
            eprintln!("harness error: {e}");
            2
        }
        Ok((rep, vs, rr)) => {
            if !args.iter().any(|a| a == "--quiet") {
                for l in batch::history_lines(&rr) {
                    println!("{l}");
                }
            }
            let same_hash = format!("{:016x}", rr.hist_hash) == rep.hist_hash;
            println!("history hash {:016x} (recorded {}) {}", rr.hist_hash, rep.hist_hash, if same_hash { "identical" } else { "DIFFERENT" });
            if vs.is_empty() {
                println!("not reproduced: {} {}", rep.clause, rep.signature);
                0
            } else {
                for v in &vs {
                    println!("{} {} :: {}", v.clause, v.signature, v.detail);
                }
                println!("VIOLATION property={} replay={}", rep.property, path);
                1
            }
        }
    }
}

fn cmd_selftest(args: &[String]) -> i32 {
    // determinism: every lane, N indices, run twice in this process on different threads
    let n: u64 = arg(args, "--n").and_then(|s| s.parse().ok()).unwrap_or(2000);
    let seed = verif_seed(args);
    let mut bad = 0;
    let mut agg: BTreeMap<String, u64> = BTreeMap::new();
    for lane in lanes::lanes() {
        let mut h = 0u64;
        for i in 0..n {
            let a = std::thread::scope(|s| s.spawn(|| lanes::execute(&lane, seed, i).2.hist_hash).join().unwrap());
            let b = lanes::execute(&lane, seed, i).2.hist_hash;
            if a != b {
                bad += 1;
                println!("MISMATCH {}/{} index {}", lane.prop, lane.family, i);
            }
            h = h.wrapping_mul(31).wrapping_add(a);
        }
        agg.insert(format!("{}/{}", lane.prop, lane.family), h);
    }
    for (k, v) in &agg {
        println!("aggregate {k} {v:016x}");
    }
    if bad > 0 {
        2
    } else {
        0
    }
}

fn cmd_check(args: &[String]) -> i32 {
    let prop = arg(args, "--prop").unwrap_or_default();
    let tier = arg(args, "--tier").or_else(|| std::env::var("VERIF_TIER").ok()).unwrap_or_else(|| "quick".into());
    let tier = if tier == "thorough" { "thorough" } else { "quick" };
    let seed = verif_seed(args);
    let workers: u64 = arg(args, "--workers")
        .and_then(|s| s.parse().ok())
        .unwrap_or_else(|| std::thread::available_parallelism().map(|n| n.get() as u64).unwrap_or(4));
    let scale: f64 = std::env::var("VERIF_SCALE").ok().and_then(|s| s.parse().ok()).unwrap_or(1.0);
    let ls = lanes::lanes_for(&prop);
    if ls.is_empty() {
        eprintln!("harness error: property {prop} has no check");
        return 2;
    }
    std::env::set_var("LDAPSIM_TIER", tier);
    println!("VERIF_SEED={seed} property={prop} tier={tier} workers={workers} tls-backend={}", estab::BACKEND);
    let t0 = Instant::now();
    let known = batch::load_known();
    let mut lane_out = vec![];
    for lane in &ls {
        let count = ((if tier == "thorough" { lane.thorough } else { lane.quick }) as f64 * scale).max(1.0) as u64;
        let o = batch::run_lane(lane, seed, count, workers.min(count));
        println!(
            "lane {}/{}: runs={} nontrivial={} distinct_shapes={} sim_s={:.1} wall_s={:.1}",
            lane.prop,
            lane.family,
            o.summary.runs,
            o.summary.nontrivial,
            o.summary.shapes.len(),
            o.summary.sim_ms as f64 / 1000.0,
            o.summary.wall_s
        );
        lane_out.push((lane, count, o));
    }
    let wall = t0.elapsed().as_secs_f64();
    // classify
    let mut exit = 0;
    let mut known_seen: BTreeMap<String, (String, u64)> = BTreeMap::new();
    let mut new_viol: Vec<&batch::VReport> = vec![];
    let mut harness_errors = vec![];
    let mut total_violation_runs = 0u64;
    for (_, _, o) in &lane_out {
        harness_errors.extend(o.harness_errors.iter().cloned());
        if o.summary.determinism_mismatches > 0 {
            harness_errors.push(format!("{} determinism mismatches", o.summary.determinism_mismatches));
        }
        for (k, n) in &o.summary.violations {
            let (clause, sig) = k.split_once('|').unwrap_or((k, ""));
            if let Some(kf) = known.findings.iter().find(|f| f.property == prop && f.clause == clause && f.signature == sig) {
                let e = known_seen.entry(k.clone()).or_insert((kf.description.clone(), 0));
                e.1 += n;
            } else {
                total_violation_runs += n;
            }
        }
        for r in &o.reports {
            let is_known = known.findings.iter().any(|f| f.property == prop && f.clause == r.violation.clause && f.signature == r.violation.signature);
            if !is_known {
                new_viol.push(r);
            } else {
                // replay files of known findings written at run time are not kept
                if !r.replay.contains("/known/") {
                    let _ = std::fs::remove_file(&r.replay);
                }
            }
        }
    }
    for (k, (d, n)) in &known_seen {
        println!("KNOWN-FINDING: property={prop} {k} ({n} runs): {d}");
    }
    let mut printed = std::collections::BTreeSet::new();
    for r in &new_viol {
        if printed.insert(r.violation.key()) {
            println!("violation {} {} :: {}", r.violation.clause, r.violation.signature, oracle::clip(&r.violation.detail));
        }
        println!("VIOLATION property={} replay={}", prop, r.replay);
        exit = 1;
    }
    if exit == 0 && total_violation_runs > 0 {
        // violations counted but no report line (should not happen)
        harness_errors.push("violations counted without report".into());
    }
    // evidence
    let evidence = build_evidence(&prop, tier, seed, wall, &lane_out, &known_seen, new_viol.len());
    let dir = std::env::var("VERIF_EVIDENCE_DIR").unwrap_or_else(|_| format!("{}/evidence", batch::VERIF_ROOT));
    let _ = std::fs::create_dir_all(&dir);
    let path = if cfg!(feature = "rustls-backend") { format!("{dir}/{prop}.rustls.json") } else { format!("{dir}/{prop}.json") };
    if let Err(e) = std::fs::write(&path, serde_json::to_string_pretty(&evidence).unwrap()) {
        harness_errors.push(format!("cannot write {path}: {e}"));
    }
    if !harness_errors.is_empty() {
        for e in &harness_errors {
            eprintln!("harness error: {e}");
        }
        if exit == 0 {
            return 2;
        }
    }
    println!("property={prop} tier={tier} held={} wall_s={:.1}", exit == 0, wall);
    exit
}

fn level_of(prop: &str) -> &'static str {
    match prop {
        "C04" => "fault_enumeration",
        _ => "exploration",
    }
}

fn build_evidence(
    prop: &str,
    tier: &str,
    seed: u64,
    wall: f64,
    lanes_out: &[(&lanes::Lane, u64, batch::LaneOutcome)],
    known_seen: &BTreeMap<String, (String, u64)>,
    nviol: usize,
) -> serde_json::Value {
    let mut evaluations = 0u64;
    let mut distinct = 0u64;
    let mut nontrivial = 0u64;
    let mut samples = vec![];
    let mut rules = vec![];
    let mut per_lane = vec![];
    let mut stats = world::Stats::default();
    let mut sim_ms = 0u64;
    let mut dm = 0u64;
    let mut dc = 0u64;
    let mut scheds = 0u64;
    let mut abs = 0u64;
    for (lane, count, o) in lanes_out {
        evaluations += o.summary.runs;
        distinct += o.summary.shapes.len() as u64;
        nontrivial += o.summary.nontrivial;
        samples.extend(o.summary.samples.iter().cloned());
        rules.push(format!("[{}] {}", lane.family, lane.rule));
        stats.merge(&o.summary.stats);
        sim_ms += o.summary.sim_ms;
        dm += o.summary.determinism_mismatches;
        dc += o.summary.determinism_checked;
        scheds += o.summary.sched_hashes;
        abs += o.summary.abs_states.len() as u64;
        per_lane.push(serde_json::json!({
            "family": lane.family,
            "planned_runs": count,
            "runs": o.summary.runs,
            "nontrivial_runs": o.summary.nontrivial,
            "distinct_shapes_among_nontrivial": o.summary.shapes.len(),
            "first_index": 0,
            "last_index": count.saturating_sub(1),
        }));
    }
    let mut faults = BTreeMap::new();
    let mut probes = BTreeMap::new();
    for (k, v) in &stats.counters {
        if let Some(f) = k.strip_prefix("fault.") {
            faults.insert(f.to_string(), *v);
        } else {
            probes.insert(k.clone(), *v);
        }
    }
    let unreached: Vec<&str> = expected_probes(prop).into_iter().filter(|p| !stats.counters.contains_key(*p)).collect();
    serde_json::json!({
        "property_id": prop,
        "tier": tier,
        "seed": seed,
        "level": level_of(prop),
        "wall_s": wall,
        "violations": nviol,
        "coverage": {
            "evaluations": evaluations,
            "distinct_nontrivial": distinct,
            "nontrivial_runs": nontrivial,
            "rule": rules.join(" || "),
            "samples": samples,
            "lanes": per_lane,
            "runs_per_hour": if wall > 0.0 { (evaluations as f64 / wall * 3600.0) as u64 } else { 0 },
            "simulated_seconds": sim_ms as f64 / 1000.0,
            "executor_steps": stats.steps,
            "fault_fired": faults,
            "probes": probes,
            "unreached_probes": unreached,
            "distinct_schedules_sum_over_workers": scheds,
            "distinct_abstract_states_sum_over_lanes": abs,
            "determinism_rechecked_runs": dc,
            "determinism_mismatches": dm,
            "known_findings_seen": known_seen.iter().map(|(k, (d, n))| serde_json::json!({"key": k, "runs": n, "description": d})).collect::<Vec<_>>(),
            "components": {
                "real": ["ldap3 (driver loop, handles, streams, adapters, codec, controls)", "lber", "tokio::sync", "tokio::time (paused clock)", "tokio_util::codec::Framed", "bytes", "nom"],
                "stub": ["transport (SimIo)", "network (chunking, delays)", "LDAP server (scripted, own BER codec)", "executor / scheduler"],
                "lanes_on_real_transports": "lanes ESTABURL, ESTABTLS and REALIO (where a property has them) run the real with_settings / ConnType dispatch over kernel loopback and Unix sockets, mio and the TLS backend this binary was built with; there only the peer (a scripted thread, OpenSSL on its side) and - in the establishment lanes - the clock are simulated",
                "tls_backend_of_ldap3": estab::BACKEND
            }
        },
        "assumptions": [
            "tokio's channels, timers and select! are correct; their internal memory ordering is not explored",
            "thread-level preemption is represented only by the H3 yield point between ID allocation and enqueue",
            "the transport is an ordered reliable byte stream until it fails (socket model of the harness)"
        ]
    })
}

fn expected_probes(prop: &str) -> Vec<&'static str> {
    match prop {
        "C01" => vec!["io.short_reads", "sched.yield_at_h3", "client.cancelled", "srv.req.search", "io.read_pending_despite_data"],
        _ => vec![],
    }
}
