//! Delta debugging over the scenario and the schedule. A candidate is kept only if a violation
//! with the same key (clause + signature) recurs.

use crate::lanes::Lane;
use crate::runner::{self, RunCfg, RunResult};
use crate::scenario::{Knobs, ReplyPlan, Scenario, Step};
use crate::world::Sched;
use std::time::Instant;

struct Ctx<'a> {
    lane: &'a Lane,
    cfg: &'a RunCfg,
    key: &'a str,
    runs: u32,
    t0: Instant,
}

impl<'a> Ctx<'a> {
    fn exhausted(&self) -> bool {
        self.runs > 4000 || self.t0.elapsed().as_secs_f64() > 8.0
    }
    /// Try a scenario under the given trace and a few fresh schedules.
    fn try_sc(&mut self, sc: &Scenario, trace: &[u32]) -> Option<(Vec<u32>, RunResult)> {
        let mut attempts: Vec<Sched> = vec![Sched::from_trace(trace.to_vec(), None), Sched::from_trace(vec![], None)];
        for s in 0..6u64 {
            attempts.push(Sched::from_seed(0x51ED_0000 + s));
        }
        for sched in attempts {
            if self.exhausted() {
                return None;
            }
            self.runs += 1;
            let rr = runner::run(sc, sched, self.cfg);
            if (self.lane.check)(sc, &rr).iter().any(|v| v.key() == self.key) {
                let t = rr.trace.clone();
                return Some((t, rr));
            }
        }
        None
    }
}

fn referenced_tokens(sc: &Scenario) -> std::collections::BTreeSet<String> {
    let mut s = std::collections::BTreeSet::new();
    for c in &sc.clients {
        for st in &c.steps {
            match st {
                Step::Op { token, .. } | Step::Open { token, .. } | Step::OpenDropped { token, .. } => {
                    s.insert(token.clone());
                }
                _ => {}
            }
        }
    }
    s
}

pub fn minimize(lane: &Lane, sc0: &Scenario, cfg: &RunCfg, rr0: &RunResult, key: &str) -> (Scenario, Vec<u32>, RunResult, bool) {
    let mut cx = Ctx { lane, cfg, key, runs: 0, t0: Instant::now() };
    let mut sc = sc0.clone();
    let mut trace = rr0.trace.clone();
    // the original must reproduce under its recorded trace, otherwise do not touch it
    let mut best = match cx.try_sc(&sc, &trace) {
        Some((t, rr)) => {
            trace = t;
            rr
        }
        None => {
            let rr = runner::run(sc0, Sched::from_trace(rr0.trace.clone(), None), cfg);
            return (sc0.clone(), rr0.trace.clone(), rr, false);
        }
    };
    let mut progress = true;
    while progress && !cx.exhausted() {
        progress = false;
        // 1. drop whole clients
        let mut c = sc.clients.len();
        while c > 0 {
            c -= 1;
            if sc.clients.len() <= 1 {
                break;
            }
            let mut cand = sc.clone();
            cand.clients.remove(c);
            if let Some((t, rr)) = cx.try_sc(&cand, &trace) {
                sc = cand;
                trace = t;
                best = rr;
                progress = true;
            }
        }
        // 2. drop steps (from the end of each script)
        for ci in 0..sc.clients.len() {
            let mut si = sc.clients[ci].steps.len();
            while si > 0 {
                si -= 1;
                if cx.exhausted() {
                    break;
                }
                let mut cand = sc.clone();
                cand.clients[ci].steps.remove(si);
                if let Some((t, rr)) = cx.try_sc(&cand, &trace) {
                    sc = cand;
                    trace = t;
                    best = rr;
                    progress = true;
                }
            }
        }
        // 3. drop unsolicited messages, extras, faults, hostile items
        let mut u = sc.plan.unsolicited.len();
        while u > 0 {
            u -= 1;
            let mut cand = sc.clone();
            cand.plan.unsolicited.remove(u);
            if let Some((t, rr)) = cx.try_sc(&cand, &trace) {
                sc = cand;
                trace = t;
                best = rr;
                progress = true;
            }
        }
        let mut f = sc.faults.len();
        while f > 0 {
            f -= 1;
            let mut cand = sc.clone();
            cand.faults.remove(f);
            if let Some((t, rr)) = cx.try_sc(&cand, &trace) {
                sc = cand;
                trace = t;
                best = rr;
                progress = true;
            }
        }
        let toks: Vec<String> = sc.plan.by_token.keys().cloned().collect();
        for tok in toks {
            if cx.exhausted() {
                break;
            }
            // shrink item lists and extras
            let mut cand = sc.clone();
            let mut changed = false;
            match cand.plan.by_token.get_mut(&tok) {
                Some(ReplyPlan::Single { extra, ctrls, .. }) => {
                    if !extra.is_empty() {
                        extra.clear();
                        changed = true;
                    }
                    if ctrls.is_some() {
                        *ctrls = None;
                        changed = true;
                    }
                }
                Some(ReplyPlan::Items { items, extra, .. }) => {
                    if !extra.is_empty() {
                        extra.clear();
                        changed = true;
                    }
                    if items.len() > 1 {
                        items.truncate(items.len() / 2);
                        changed = true;
                    }
                }
                _ => {}
            }
            if changed {
                if let Some((t, rr)) = cx.try_sc(&cand, &trace) {
                    sc = cand;
                    trace = t;
                    best = rr;
                    progress = true;
                }
            }
        }
        // 4. plain knobs
        let plain = Knobs { lenform_seed: sc.knobs.lenform_seed, ..Knobs::default() };
        if sc.knobs != plain {
            let mut cand = sc.clone();
            cand.knobs = plain;
            if let Some((t, rr)) = cx.try_sc(&cand, &trace) {
                sc = cand;
                trace = t;
                best = rr;
                progress = true;
            } else {
                // knob by knob
                macro_rules! try_knob {
                    ($field:ident, $val:expr) => {
                        if sc.knobs.$field != $val && !cx.exhausted() {
                            let mut cand = sc.clone();
                            cand.knobs.$field = $val;
                            if let Some((t, rr)) = cx.try_sc(&cand, &trace) {
                                sc = cand;
                                trace = t;
                                best = rr;
                                progress = true;
                            }
                        }
                    };
                }
                try_knob!(chunking, crate::scenario::Chunking::Whole);
                try_knob!(net_delay_max_ms, 0);
                try_knob!(max_read, 0);
                try_knob!(random_read_cap, false);
                try_knob!(read_pending_pm, 0);
                try_knob!(write_quota, 0);
                try_knob!(write_pending_pm, 0);
                try_knob!(spurious_pm, 0);
                try_knob!(yield_pm, 0);
                try_knob!(lenform_extra_max, 0);
            }
        }
    }
    // drop plans nobody refers to any more
    let used = referenced_tokens(&sc);
    let mut cand = sc.clone();
    cand.plan.by_token.retain(|k, _| used.contains(k));
    if cand != sc {
        if let Some((t, rr)) = cx.try_sc(&cand, &trace) {
            sc = cand;
            trace = t;
            best = rr;
        }
    }
    // try to zero out the schedule
    if let Some((t, rr)) = {
        cx.runs += 1;
        let rr = runner::run(&sc, Sched::from_trace(vec![], None), cfg);
        if (lane.check)(&sc, &rr).iter().any(|v| v.key() == key) {
            Some((rr.trace.clone(), rr))
        } else {
            None
        }
    } {
        trace = t;
        best = rr;
    }
    // final confirmation: replaying (sc, trace) must reproduce
    let rr = runner::run(&sc, Sched::from_trace(trace.clone(), None), cfg);
    if (lane.check)(&sc, &rr).iter().any(|v| v.key() == key) {
        (sc, trace, rr, true)
    } else {
        let _ = best;
        let rr = runner::run(sc0, Sched::from_trace(rr0.trace.clone(), None), cfg);
        (sc0.clone(), rr0.trace.clone(), rr, false)
    }
}
