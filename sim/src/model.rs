//! Executable reference model: what a caller must receive, computed from the scenario's
//! server plan and the documented behaviour of the API (not from ldap3's code).

use crate::msg::{self, Ctl, RespOp, ResultSpec};
use crate::scenario::{Adapter, DonePlan, ItemPlan, OpSpec, ReplyPlan};
use crate::world::{CtlC, ItemC, ResC, Ret};

/// OIDs of response controls the library documents as recognised.
pub fn known_control(oid: &str) -> Option<&'static str> {
    Some(match oid {
        "1.2.840.113556.1.4.319" => "PagedResults",
        "1.3.6.1.1.13.2" => "PostReadResp",
        "1.3.6.1.1.13.1" => "PreReadResp",
        "1.3.6.1.4.1.4203.1.9.1.3" => "SyncDone",
        "1.3.6.1.4.1.4203.1.9.1.2" => "SyncState",
        "2.16.840.1.113730.3.4.2" => "ManageDsaIt",
        "1.2.826.0.1.3344810.2.3" => "MatchedValues",
        _ => return None,
    })
}

pub fn ctl_expect(c: &Ctl) -> CtlC {
    let oid = String::from_utf8_lossy(&c.oid).into_owned();
    CtlC { known: known_control(&oid).map(|s| s.to_string()), oid, crit: c.crit.unwrap_or(false), val: c.val.clone() }
}

pub fn ctls_expect(c: &Option<Vec<Ctl>>) -> Vec<CtlC> {
    c.as_ref().map(|v| v.iter().map(ctl_expect).collect()).unwrap_or_default()
}

/// Marker in an expected value: the server sent a result code that no `u32` can hold, so the number the
/// caller sees is not compared (the helpers are: such a code is neither 0 nor 10, 5 or 6).
pub const RC_UNREPRESENTABLE: u32 = u32::MAX;

pub fn res_expect(r: &ResultSpec, ctrls: &Option<Vec<Ctl>>) -> ResC {
    let rc = match r.rc_wide {
        _ if r.rc_octets.is_some() => RC_UNREPRESENTABLE,
        Some(w) if w > u32::MAX as u64 => RC_UNREPRESENTABLE,
        Some(w) => w as u32,
        None => r.rc,
    };
    ResC { rc, matched: r.matched.clone(), text: r.text.clone(), refs: r.refs.clone().unwrap_or_default(), ctrls: ctls_expect(ctrls) }
}

pub fn item_expect(op: &RespOp, ctrls: &Option<Vec<Ctl>>) -> ItemC {
    ItemC { tlv: msg::op_tlv(op), ctrls: ctls_expect(ctrls) }
}

/// Expected value of a single-result operation given its reply.
pub fn single_expect(op: &OpSpec, r: &ResultSpec, ctrls: &Option<Vec<Ctl>>) -> Ret {
    let res = res_expect(r, ctrls);
    match op {
        OpSpec::Compare { .. } => Ret::Cmp(res),
        OpSpec::Extended { .. } => Ret::Exop { name: r.exop_name.clone(), val: r.exop_val.clone(), res },
        _ => Ret::Res(res),
    }
}

/// Expected value of `Ldap::search()` given the whole item sequence and the final result.
pub fn search_expect(items: &[ItemPlan], done: &DonePlan) -> Ret {
    let mut entries = vec![];
    let mut refs: Vec<String> = vec![];
    for it in items {
        match &it.op {
            RespOp::Entry { .. } => entries.push(item_expect(&it.op, &it.ctrls)),
            RespOp::Reference { uris } => refs.extend(uris.iter().cloned()),
            _ => {}
        }
    }
    let mut res = res_expect(&done.res, &done.ctrls);
    res.refs.extend(refs);
    Ret::Search { entries, res }
}

#[derive(Clone, Copy, Debug, PartialEq, Eq)]
pub enum SState {
    Fresh,
    Active,
    Done,
    Closed,
    Error,
}

impl SState {
    pub fn phase(self) -> &'static str {
        match self {
            SState::Fresh => "fresh",
            SState::Active => "active",
            SState::Done => "after-end",
            SState::Closed => "after-finish",
            SState::Error => "after-error",
        }
    }
    pub fn name(self) -> &'static str {
        match self {
            SState::Fresh => "Fresh",
            SState::Active => "Active",
            SState::Done => "Done",
            SState::Closed => "Closed",
            SState::Error => "Error",
        }
    }
}

/// Reference model of the documented search-stream state machine (one protocol search).
#[derive(Clone, Debug)]
pub struct StreamModel {
    pub state: SState,
    pub entries_only: bool,
    items: Vec<ItemPlan>,
    done: Option<DonePlan>,
    cursor: usize,
    collected_refs: Vec<String>,
    result: Option<ResC>,
    /// per-item timeout of the stream, if the search was opened with one
    pub timeout_ms: Option<u64>,
    pub adapter: Adapter,
    /// index of the last emission consumed by next(): item index, or items.len() for SearchResultDone
    pub last_consumed: Option<usize>,
    /// the search was abandoned through the stream's handle while it was Active
    pub abandoned: bool,
    /// harness adapter FailAfter(n): next() calls still handed up the chain
    pub fail_left: Option<u32>,
}

pub fn synthetic(rc: u32) -> ResC {
    ResC { rc, matched: String::new(), text: String::new(), refs: vec![], ctrls: vec![] }
}

impl StreamModel {
    pub fn open(plan: &ReplyPlan, adapter: Adapter, timeout_ms: Option<u64>) -> Option<StreamModel> {
        let (items, done) = match plan {
            ReplyPlan::Items { items, done, .. } => (items.clone(), done.clone()),
            _ => return None,
        };
        Some(StreamModel {
            state: SState::Active,
            entries_only: matches!(adapter, Adapter::EntriesOnly),
            items,
            done,
            cursor: 0,
            collected_refs: vec![],
            result: None,
            timeout_ms,
            adapter,
            last_consumed: None,
            abandoned: false,
            fail_left: match adapter {
                Adapter::FailAfter(n) => Some(n),
                _ => None,
            },
        })
    }

    /// The search is abandoned from another handle before the first item whose gap is `late_gap_ms` or more.
    pub fn abandon_from_elsewhere(&mut self, late_gap_ms: u64) {
        if let Some(p) = self.items.iter().position(|it| it.gap_ms >= late_gap_ms) {
            self.items.truncate(p);
        }
        self.done = None;
        self.abandoned = true;
    }

    /// Is there a planned emission the next `next()` can consume? (otherwise the call blocks)
    pub fn would_block(&self) -> bool {
        self.state == SState::Active && self.cursor >= self.items.len() && self.done.is_none() && !self.abandoned
    }

    pub fn next(&mut self) -> Ret {
        if self.state != SState::Active {
            return Ret::Item(None);
        }
        if let Some(left) = self.fail_left.as_mut() {
            if *left == 0 {
                self.state = SState::Error;
                return Ret::Err(crate::world::ErrC::AdapterInit("harness adapter: rejected".into()));
            }
            *left -= 1;
        }
        loop {
            if self.cursor < self.items.len() {
                let it = &self.items[self.cursor];
                if matches!(self.timeout_ms, Some(t) if it.gap_ms >= t) {
                    self.state = SState::Error;
                    return Ret::Err(crate::world::ErrC::Timeout);
                }
                self.cursor += 1;
                self.last_consumed = Some(self.cursor - 1);
                if self.entries_only {
                    match &it.op {
                        RespOp::Entry { .. } => return Ret::Item(Some(item_expect(&it.op, &it.ctrls))),
                        RespOp::Reference { uris } => {
                            self.collected_refs.extend(uris.iter().cloned());
                            continue;
                        }
                        _ => continue,
                    }
                }
                return Ret::Item(Some(item_expect(&it.op, &it.ctrls)));
            }
            // SearchResultDone
            if self.done.is_none() && self.abandoned {
                // the routing entry is gone: the item channel is closed
                self.state = SState::Error;
                return Ret::Err(crate::world::ErrC::EndOfStream);
            }
            // (a script in which next() would wait forever is not one the generators write; the minimiser can
            // produce one by dropping steps, and the run then ends at the watchdog)
            let Some(d) = self.done.as_ref() else { return Ret::Skipped };
            if matches!(self.timeout_ms, Some(t) if d.gap_ms >= t) {
                self.state = SState::Error;
                return Ret::Err(crate::world::ErrC::Timeout);
            }
            self.result = Some(res_expect(&d.res, &d.ctrls));
            self.last_consumed = Some(self.items.len());
            self.state = SState::Done;
            return Ret::Item(None);
        }
    }

    pub fn finish(&mut self) -> Ret {
        if self.state == SState::Closed {
            return Ret::Fin(synthetic(80));
        }
        let mut r = match self.result.take() {
            Some(r) => r,
            None => synthetic(88),
        };
        if self.entries_only {
            r.refs.extend(std::mem::take(&mut self.collected_refs));
        }
        self.state = SState::Closed;
        Ret::Fin(r)
    }
}

/// Compare a `finish()` value with the model's; synthetic results are compared by code only
/// (the statement fixes the code, not the diagnostic text).
pub fn fin_matches(actual: &Ret, expected: &Ret) -> bool {
    match (actual, expected) {
        (Ret::Fin(a), Ret::Fin(e)) => {
            if (e.rc == 88 || e.rc == 80) && e.text.is_empty() {
                a.rc == e.rc && a.ctrls.is_empty() && a.refs == e.refs && a.matched.is_empty()
            } else {
                a == e
            }
        }
        _ => false,
    }
}

// ---------------------------------------------------------------------------------------------
// Request model (C02): what RFC 4511 says must be on the wire for a call
// ---------------------------------------------------------------------------------------------

use crate::msg::{Filter, ReqOp};
use crate::scenario::{ModSpec, Mods, SearchOpts};

pub enum ReqExpect {
    /// the call is refused before anything is sent, with this error class
    Refused(&'static str),
    Sent(ReqOp),
}

fn sorted_dedup(v: &[Vec<u8>]) -> Vec<Vec<u8>> {
    let mut x = v.to_vec();
    x.sort();
    x.dedup();
    x
}

/// `opts` are the search options in effect for this call (None = defaults).
pub fn req_expect(op: &OpSpec, opts: Option<&SearchOpts>, filter_of: impl Fn(&crate::scenario::SearchSpec) -> Option<Filter>) -> ReqExpect {
    use ReqExpect::*;
    match op {
        OpSpec::SimpleBind { dn, pw } => Sent(ReqOp::BindSimple { version: 3, dn: dn.as_bytes().to_vec(), pw: pw.as_bytes().to_vec() }),
        OpSpec::SaslExternal => Sent(ReqOp::BindSasl { version: 3, dn: vec![], mech: b"EXTERNAL".to_vec(), creds: Some(vec![]) }),
        OpSpec::Search(s) => {
            let Some(f) = filter_of(s) else { return Refused("FilterParsing") };
            let d = SearchOpts::default();
            let o = opts.unwrap_or(&d);
            Sent(ReqOp::Search {
                base: s.base.as_bytes().to_vec(),
                scope: s.scope as i64,
                deref: o.deref as i64,
                size: o.sizelimit as i64,
                time: o.timelimit as i64,
                types_only: o.typesonly,
                filter: f,
                attrs: s.attrs.iter().map(|a| a.as_bytes().to_vec()).collect(),
            })
        }
        OpSpec::Add { dn, attrs } => {
            if attrs.iter().any(|(_, v)| v.is_empty()) {
                return Refused("AddNoValues");
            }
            Sent(ReqOp::Add { dn: dn.as_bytes().to_vec(), attrs: attrs.iter().map(|(n, v)| (n.clone(), sorted_dedup(v))).collect() })
        }
        OpSpec::Compare { dn, attr, val } => Sent(ReqOp::Compare { dn: dn.as_bytes().to_vec(), attr: attr.as_bytes().to_vec(), val: val.clone() }),
        OpSpec::Delete { dn } => Sent(ReqOp::Del { dn: dn.as_bytes().to_vec() }),
        OpSpec::Modify { dn, mods } => {
            let mut changes = vec![];
            for m in mods {
                match m {
                    ModSpec::Add(a, v) => {
                        if v.is_empty() {
                            return Refused("AddNoValues");
                        }
                        changes.push((0, a.clone(), sorted_dedup(v)))
                    }
                    ModSpec::Delete(a, v) => changes.push((1, a.clone(), sorted_dedup(v))),
                    ModSpec::Replace(a, v) => changes.push((2, a.clone(), sorted_dedup(v))),
                    ModSpec::Increment(a, v) => changes.push((3, a.clone(), vec![v.clone()])),
                }
            }
            Sent(ReqOp::Modify { dn: dn.as_bytes().to_vec(), changes })
        }
        OpSpec::ModifyDn { dn, rdn, delete_old, new_sup } => Sent(ReqOp::ModDn {
            dn: dn.as_bytes().to_vec(),
            rdn: rdn.as_bytes().to_vec(),
            delete_old: *delete_old,
            new_sup: new_sup.as_ref().map(|s| s.as_bytes().to_vec()),
        }),
        OpSpec::Extended { oid, val } => Sent(ReqOp::Extended { oid: oid.as_bytes().to_vec(), val: val.clone() }),
        OpSpec::Abandon(_) => Sent(ReqOp::Abandon { id: -1 }),
        OpSpec::Unbind => Sent(ReqOp::Unbind),
    }
}

/// Reference model of the one-shot modifiers of a handle.
#[derive(Clone, Debug, Default)]
pub struct ModState {
    pub m: Mods,
}

impl ModState {
    pub fn set(&mut self, m: &Mods) {
        if m.controls.is_some() {
            self.m.controls = m.controls.clone();
        }
        if m.timeout_ms.is_some() {
            self.m.timeout_ms = m.timeout_ms;
        }
        if m.opts.is_some() {
            self.m.opts = m.opts.clone();
        }
    }
    /// an operation starts: it uses what was set since the previous operation, and clears it
    pub fn take(&mut self) -> Mods {
        std::mem::take(&mut self.m)
    }
}

/// Controls as they must appear on the wire for a set of request controls given to the API.
pub fn req_ctrls_expect(c: &Option<Vec<Ctl>>) -> Option<Vec<Ctl>> {
    c.as_ref().map(|v| v.iter().map(|c| Ctl { oid: c.oid.clone(), crit: if c.crit == Some(true) { Some(true) } else { None }, val: c.val.clone() }).collect())
}
