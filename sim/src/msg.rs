//! LDAP message models of the harness (RFC 4511), independent of ldap3's codec.
//! `Req`: what the scripted server decodes from the wire. `Resp`: what it encodes.

use crate::ber::{self, Body, Class, Tlv};
use serde::{Deserialize, Serialize};

pub type Bytes = Vec<u8>;

#[derive(Clone, Debug, PartialEq, Eq, Hash, PartialOrd, Ord, Serialize, Deserialize)]
pub struct Ctl {
    pub oid: Bytes,
    /// `None` = absent on the wire, `Some(b)` = explicitly encoded.
    pub crit: Option<bool>,
    pub val: Option<Bytes>,
}

#[derive(Clone, Debug, PartialEq, Eq, Hash, PartialOrd, Ord, Serialize, Deserialize)]
pub enum Filter {
    And(Vec<Filter>),
    Or(Vec<Filter>),
    Not(Box<Filter>),
    Eq(Bytes, Bytes),
    Sub { attr: Bytes, initial: Option<Bytes>, any: Vec<Bytes>, fin: Option<Bytes> },
    Ge(Bytes, Bytes),
    Le(Bytes, Bytes),
    Present(Bytes),
    Approx(Bytes, Bytes),
    Ext { rule: Option<Bytes>, attr: Option<Bytes>, value: Bytes, dn: bool },
}

#[derive(Clone, Debug, PartialEq, Eq, Hash, Serialize, Deserialize)]
pub enum ReqOp {
    BindSimple { version: i64, dn: Bytes, pw: Bytes },
    BindSasl { version: i64, dn: Bytes, mech: Bytes, creds: Option<Bytes> },
    Unbind,
    Search {
        base: Bytes,
        scope: i64,
        deref: i64,
        size: i64,
        time: i64,
        types_only: bool,
        filter: Filter,
        attrs: Vec<Bytes>,
    },
    /// values of each change are kept sorted (SET OF compared as multiset)
    Modify { dn: Bytes, changes: Vec<(i64, Bytes, Vec<Bytes>)> },
    Add { dn: Bytes, attrs: Vec<(Bytes, Vec<Bytes>)> },
    Del { dn: Bytes },
    ModDn { dn: Bytes, rdn: Bytes, delete_old: bool, new_sup: Option<Bytes> },
    Compare { dn: Bytes, attr: Bytes, val: Bytes },
    Abandon { id: i64 },
    Extended { oid: Bytes, val: Option<Bytes> },
}

impl ReqOp {
    pub fn kind(&self) -> &'static str {
        match self {
            ReqOp::BindSimple { .. } => "bind",
            ReqOp::BindSasl { .. } => "saslbind",
            ReqOp::Unbind => "unbind",
            ReqOp::Search { .. } => "search",
            ReqOp::Modify { .. } => "modify",
            ReqOp::Add { .. } => "add",
            ReqOp::Del { .. } => "delete",
            ReqOp::ModDn { .. } => "moddn",
            ReqOp::Compare { .. } => "compare",
            ReqOp::Abandon { .. } => "abandon",
            ReqOp::Extended { .. } => "extended",
        }
    }
    /// Application tag of the matching final response, if the operation has one.
    pub fn resp_tag(&self) -> Option<u32> {
        Some(match self {
            ReqOp::BindSimple { .. } | ReqOp::BindSasl { .. } => 1,
            ReqOp::Search { .. } => 5,
            ReqOp::Modify { .. } => 7,
            ReqOp::Add { .. } => 9,
            ReqOp::Del { .. } => 11,
            ReqOp::ModDn { .. } => 13,
            ReqOp::Compare { .. } => 15,
            ReqOp::Extended { .. } => 24,
            ReqOp::Unbind | ReqOp::Abandon { .. } => return None,
        })
    }
}

#[derive(Clone, Debug, PartialEq, Eq, Hash, Serialize, Deserialize)]
pub struct Req {
    pub id: i64,
    pub op: ReqOp,
    pub ctrls: Option<Vec<Ctl>>,
}

/// Problems found by the strict request decoder. Anything in here is a C02 violation.
pub type Strict = Vec<String>;

fn prim<'a>(t: &'a Tlv, what: &str, st: &mut Strict) -> &'a [u8] {
    match &t.body {
        Body::Prim(v) => v,
        Body::Cons(_) => {
            st.push(format!("{what}: constructed where primitive required"));
            &[]
        }
    }
}

fn cons<'a>(t: &'a Tlv, what: &str, st: &mut Strict) -> &'a [Tlv] {
    match &t.body {
        Body::Cons(v) => v,
        Body::Prim(_) => {
            st.push(format!("{what}: primitive where constructed required"));
            &[]
        }
    }
}

fn expect(t: &Tlv, class: Class, tag: u32, what: &str, st: &mut Strict) {
    if !t.is(class, tag) {
        st.push(format!("{what}: expected {:?} {}, found {:?} {}", class, tag, t.class, t.tag));
    }
}

fn octets(t: &Tlv, what: &str, st: &mut Strict) -> Bytes {
    expect(t, Class::Univ, 4, what, st);
    prim(t, what, st).to_vec()
}

fn integer(t: &Tlv, tag: u32, what: &str, st: &mut Strict) -> i64 {
    expect(t, Class::Univ, tag, what, st);
    let c = prim(t, what, st);
    if !ber::int_is_minimal(c) {
        st.push(format!("{what}: INTEGER/ENUMERATED content not minimal: {:02x?}", c));
    }
    ber::int_value(c).unwrap_or_else(|| {
        st.push(format!("{what}: bad integer content"));
        0
    })
}

fn boolean(t: &Tlv, what: &str, st: &mut Strict) -> bool {
    expect(t, Class::Univ, 1, what, st);
    let c = prim(t, what, st);
    if c.len() != 1 {
        st.push(format!("{what}: BOOLEAN content length {}", c.len()));
        return false;
    }
    if c[0] != 0 && c[0] != 0xFF {
        st.push(format!("{what}: BOOLEAN true must be 0xFF (RFC 4511 5.1), found {:#x}", c[0]));
    }
    c[0] != 0
}

fn get<'a>(v: &'a [Tlv], i: usize, what: &str, st: &mut Strict) -> Option<&'a Tlv> {
    if i >= v.len() {
        st.push(format!("{what}: missing element {i}"));
    }
    v.get(i)
}

fn arity(v: &[Tlv], n: usize, what: &str, st: &mut Strict) {
    if v.len() != n {
        st.push(format!("{what}: expected {n} elements, found {}", v.len()));
    }
}

fn decode_filter(t: &Tlv, st: &mut Strict, depth: u32) -> Filter {
    if t.class != Class::Ctx {
        st.push(format!("filter: class {:?}", t.class));
    }
    if depth > 200 {
        st.push("filter too deep".into());
        return Filter::And(vec![]);
    }
    let ava = |t: &Tlv, st: &mut Strict| -> (Bytes, Bytes) {
        let v = cons(t, "filter AVA", st);
        arity(v, 2, "filter AVA", st);
        let a = v.first().map(|x| octets(x, "AVA attr", st)).unwrap_or_default();
        let b = v.get(1).map(|x| octets(x, "AVA value", st)).unwrap_or_default();
        (a, b)
    };
    match t.tag {
        0 => Filter::And(cons(t, "and", st).iter().map(|f| decode_filter(f, st, depth + 1)).collect()),
        1 => Filter::Or(cons(t, "or", st).iter().map(|f| decode_filter(f, st, depth + 1)).collect()),
        2 => {
            let v = cons(t, "not", st);
            arity(v, 1, "not", st);
            match v.first() {
                Some(f) => Filter::Not(Box::new(decode_filter(f, st, depth + 1))),
                None => Filter::And(vec![]),
            }
        }
        3 => {
            let (a, b) = ava(t, st);
            Filter::Eq(a, b)
        }
        4 => {
            let v = cons(t, "substrings", st);
            arity(v, 2, "substrings", st);
            let attr = v.first().map(|x| octets(x, "substr attr", st)).unwrap_or_default();
            let mut initial = None;
            let mut any = vec![];
            let mut fin = None;
            if let Some(s) = v.get(1) {
                expect(s, Class::Univ, 16, "substrings seq", st);
                let parts = cons(s, "substrings seq", st);
                if parts.is_empty() {
                    st.push("substrings: empty sequence".into());
                }
                for (i, p) in parts.iter().enumerate() {
                    if p.class != Class::Ctx {
                        st.push("substring part class".into());
                    }
                    let val = prim(p, "substring part", st).to_vec();
                    match p.tag {
                        0 => {
                            if i != 0 {
                                st.push("substrings: initial not first".into());
                            }
                            initial = Some(val);
                        }
                        1 => {
                            if fin.is_some() {
                                st.push("substrings: any after final".into());
                            }
                            any.push(val);
                        }
                        2 => {
                            if i != parts.len() - 1 {
                                st.push("substrings: final not last".into());
                            }
                            fin = Some(val);
                        }
                        x => st.push(format!("substrings: bad part tag {x}")),
                    }
                }
            }
            Filter::Sub { attr, initial, any, fin }
        }
        5 => {
            let (a, b) = ava(t, st);
            Filter::Ge(a, b)
        }
        6 => {
            let (a, b) = ava(t, st);
            Filter::Le(a, b)
        }
        7 => Filter::Present(prim(t, "present", st).to_vec()),
        8 => {
            let (a, b) = ava(t, st);
            Filter::Approx(a, b)
        }
        9 => {
            let v = cons(t, "extensible", st);
            let mut rule = None;
            let mut attr = None;
            let mut value = None;
            let mut dn = false;
            let mut last = 0;
            for p in v {
                if p.class != Class::Ctx {
                    st.push("extensible part class".into());
                }
                if p.tag < last {
                    st.push("extensible parts out of order".into());
                }
                last = p.tag;
                let c = prim(p, "extensible part", st);
                match p.tag {
                    1 => rule = Some(c.to_vec()),
                    2 => attr = Some(c.to_vec()),
                    3 => value = Some(c.to_vec()),
                    4 => {
                        if c.len() != 1 {
                            st.push("dnAttributes length".into());
                        } else {
                            if c[0] == 0 {
                                st.push("dnAttributes FALSE encoded (DEFAULT must be absent)".into());
                            } else if c[0] != 0xFF {
                                st.push("dnAttributes TRUE not 0xFF".into());
                            }
                            dn = c[0] != 0;
                        }
                    }
                    x => st.push(format!("extensible: bad part tag {x}")),
                }
            }
            if value.is_none() {
                st.push("extensible: matchValue missing".into());
            }
            Filter::Ext { rule, attr, value: value.unwrap_or_default(), dn }
        }
        x => {
            st.push(format!("filter: unknown choice {x}"));
            Filter::And(vec![])
        }
    }
}

pub fn decode_controls(t: &Tlv, st: &mut Strict) -> Vec<Ctl> {
    let mut out = vec![];
    for c in cons(t, "controls", st) {
        expect(c, Class::Univ, 16, "control", st);
        let v = cons(c, "control", st);
        let oid = get(v, 0, "control", st).map(|x| octets(x, "control oid", st)).unwrap_or_default();
        let mut crit = None;
        let mut val = None;
        let mut i = 1;
        if let Some(x) = v.get(i) {
            if x.is(Class::Univ, 1) {
                crit = Some(boolean(x, "criticality", st));
                i += 1;
            }
        }
        if let Some(x) = v.get(i) {
            val = Some(octets(x, "control value", st));
            i += 1;
        }
        if i != v.len() {
            st.push("control: trailing elements".into());
        }
        out.push(Ctl { oid, crit, val });
    }
    out
}

/// Strictly decode one LDAPMessage that carries a request.
pub fn decode_request(t: &Tlv, st: &mut Strict) -> Option<Req> {
    expect(t, Class::Univ, 16, "LDAPMessage", st);
    let v = cons(t, "LDAPMessage", st);
    if v.len() < 2 || v.len() > 3 {
        st.push(format!("LDAPMessage: {} elements", v.len()));
    }
    let id = integer(v.first()?, 2, "messageID", st);
    if !(0..=2147483647).contains(&id) {
        st.push(format!("messageID out of range: {id}"));
    }
    let p = v.get(1)?;
    if p.class != Class::App {
        st.push(format!("protocolOp class {:?}", p.class));
    }
    let op = match p.tag {
        0 => {
            let b = cons(p, "BindRequest", st);
            arity(b, 3, "BindRequest", st);
            let version = b.first().map(|x| integer(x, 2, "bind version", st)).unwrap_or(0);
            let dn = b.get(1).map(|x| octets(x, "bind name", st)).unwrap_or_default();
            let auth = b.get(2)?;
            if auth.class != Class::Ctx {
                st.push("bind auth class".into());
            }
            match auth.tag {
                0 => ReqOp::BindSimple { version, dn, pw: prim(auth, "simple", st).to_vec() },
                3 => {
                    let s = cons(auth, "sasl", st);
                    if s.is_empty() || s.len() > 2 {
                        st.push("sasl credentials arity".into());
                    }
                    let mech = s.first().map(|x| octets(x, "sasl mech", st)).unwrap_or_default();
                    let creds = s.get(1).map(|x| octets(x, "sasl creds", st));
                    ReqOp::BindSasl { version, dn, mech, creds }
                }
                x => {
                    st.push(format!("bind auth choice {x}"));
                    return None;
                }
            }
        }
        2 => {
            let c = prim(p, "UnbindRequest", st);
            if !c.is_empty() {
                st.push("UnbindRequest not empty".into());
            }
            ReqOp::Unbind
        }
        3 => {
            let s = cons(p, "SearchRequest", st);
            arity(s, 8, "SearchRequest", st);
            let base = s.first().map(|x| octets(x, "baseObject", st)).unwrap_or_default();
            let scope = s.get(1).map(|x| integer(x, 10, "scope", st)).unwrap_or(0);
            let deref = s.get(2).map(|x| integer(x, 10, "derefAliases", st)).unwrap_or(0);
            let size = s.get(3).map(|x| integer(x, 2, "sizeLimit", st)).unwrap_or(0);
            let time = s.get(4).map(|x| integer(x, 2, "timeLimit", st)).unwrap_or(0);
            let types_only = s.get(5).map(|x| boolean(x, "typesOnly", st)).unwrap_or(false);
            let filter = s.get(6).map(|x| decode_filter(x, st, 0)).unwrap_or(Filter::And(vec![]));
            let mut attrs = vec![];
            if let Some(a) = s.get(7) {
                expect(a, Class::Univ, 16, "attributes", st);
                for x in cons(a, "attributes", st) {
                    attrs.push(octets(x, "attribute selector", st));
                }
            }
            ReqOp::Search { base, scope, deref, size, time, types_only, filter, attrs }
        }
        6 => {
            let s = cons(p, "ModifyRequest", st);
            arity(s, 2, "ModifyRequest", st);
            let dn = s.first().map(|x| octets(x, "modify object", st)).unwrap_or_default();
            let mut changes = vec![];
            if let Some(cs) = s.get(1) {
                expect(cs, Class::Univ, 16, "changes", st);
                for c in cons(cs, "changes", st) {
                    expect(c, Class::Univ, 16, "change", st);
                    let cv = cons(c, "change", st);
                    arity(cv, 2, "change", st);
                    let op = cv.first().map(|x| integer(x, 10, "change op", st)).unwrap_or(0);
                    let (attr, vals) = cv.get(1).map(|x| partial_attr(x, st)).unwrap_or_default();
                    changes.push((op, attr, vals));
                }
            }
            ReqOp::Modify { dn, changes }
        }
        8 => {
            let s = cons(p, "AddRequest", st);
            arity(s, 2, "AddRequest", st);
            let dn = s.first().map(|x| octets(x, "add entry", st)).unwrap_or_default();
            let mut attrs = vec![];
            if let Some(a) = s.get(1) {
                expect(a, Class::Univ, 16, "attribute list", st);
                for x in cons(a, "attribute list", st) {
                    attrs.push(partial_attr(x, st));
                }
            }
            ReqOp::Add { dn, attrs }
        }
        10 => ReqOp::Del { dn: prim(p, "DelRequest", st).to_vec() },
        12 => {
            let s = cons(p, "ModifyDNRequest", st);
            if s.len() < 3 || s.len() > 4 {
                st.push("ModifyDNRequest arity".into());
            }
            let dn = s.first().map(|x| octets(x, "moddn entry", st)).unwrap_or_default();
            let rdn = s.get(1).map(|x| octets(x, "newrdn", st)).unwrap_or_default();
            let delete_old = s.get(2).map(|x| boolean(x, "deleteoldrdn", st)).unwrap_or(false);
            let new_sup = s.get(3).map(|x| {
                expect(x, Class::Ctx, 0, "newSuperior", st);
                prim(x, "newSuperior", st).to_vec()
            });
            ReqOp::ModDn { dn, rdn, delete_old, new_sup }
        }
        14 => {
            let s = cons(p, "CompareRequest", st);
            arity(s, 2, "CompareRequest", st);
            let dn = s.first().map(|x| octets(x, "compare entry", st)).unwrap_or_default();
            let (attr, val) = match s.get(1) {
                Some(a) => {
                    expect(a, Class::Univ, 16, "ava", st);
                    let av = cons(a, "ava", st);
                    arity(av, 2, "ava", st);
                    (
                        av.first().map(|x| octets(x, "ava desc", st)).unwrap_or_default(),
                        av.get(1).map(|x| octets(x, "ava value", st)).unwrap_or_default(),
                    )
                }
                None => Default::default(),
            };
            ReqOp::Compare { dn, attr, val }
        }
        16 => {
            let c = prim(p, "AbandonRequest", st);
            if !ber::int_is_minimal(c) {
                st.push("AbandonRequest integer not minimal".into());
            }
            ReqOp::Abandon { id: ber::int_value(c).unwrap_or(-1) }
        }
        23 => {
            let s = cons(p, "ExtendedRequest", st);
            if s.is_empty() || s.len() > 2 {
                st.push("ExtendedRequest arity".into());
            }
            let oid = s
                .first()
                .map(|x| {
                    expect(x, Class::Ctx, 0, "requestName", st);
                    prim(x, "requestName", st).to_vec()
                })
                .unwrap_or_default();
            let val = s.get(1).map(|x| {
                expect(x, Class::Ctx, 1, "requestValue", st);
                prim(x, "requestValue", st).to_vec()
            });
            ReqOp::Extended { oid, val }
        }
        x => {
            st.push(format!("unknown request protocolOp {x}"));
            return None;
        }
    };
    let ctrls = v.get(2).map(|c| {
        expect(c, Class::Ctx, 0, "controls", st);
        let cs = decode_controls(c, st);
        for c in &cs {
            if c.crit == Some(false) {
                st.push("control criticality FALSE encoded (DEFAULT must be absent)".into());
            }
        }
        cs
    });
    Some(Req { id, op, ctrls })
}

fn partial_attr(t: &Tlv, st: &mut Strict) -> (Bytes, Vec<Bytes>) {
    expect(t, Class::Univ, 16, "attribute", st);
    let v = cons(t, "attribute", st);
    arity(v, 2, "attribute", st);
    let name = v.first().map(|x| octets(x, "attribute type", st)).unwrap_or_default();
    let mut vals = vec![];
    if let Some(s) = v.get(1) {
        expect(s, Class::Univ, 17, "attribute vals", st);
        for x in cons(s, "attribute vals", st) {
            vals.push(octets(x, "attribute value", st));
        }
    }
    vals.sort();
    (name, vals)
}

// ---------------------------------------------------------------------------------------------
// Responses
// ---------------------------------------------------------------------------------------------

#[derive(Clone, Debug, PartialEq, Eq, Hash, Serialize, Deserialize)]
pub struct ResultSpec {
    pub rc: u32,
    /// when set, this value is encoded as the result code instead of `rc` (codes that do not fit 32 bits)
    #[serde(default)]
    pub rc_wide: Option<u64>,
    /// when set, these are the content octets of the result code ENUMERATED (codes of nine or more octets;
    /// the generators only write values above 2^32 here)
    #[serde(default)]
    pub rc_octets: Option<Bytes>,
    pub matched: String,
    pub text: String,
    /// `None` = no referral element; `Some(v)` = `[3]` referral with these URIs
    pub refs: Option<Vec<String>>,
    pub sasl_creds: Option<Bytes>,
    pub exop_name: Option<String>,
    pub exop_val: Option<Bytes>,
}

impl ResultSpec {
    pub fn simple(rc: u32, text: &str) -> ResultSpec {
        ResultSpec { rc, rc_wide: None, rc_octets: None, matched: String::new(), text: text.to_string(), refs: None, sasl_creds: None, exop_name: None, exop_val: None }
    }
}

#[derive(Clone, Debug, PartialEq, Eq, Hash, Serialize, Deserialize)]
pub enum RespOp {
    /// Any LDAPResult-shaped response: application tag + components
    Result { tag: u32, res: ResultSpec },
    Entry { dn: String, attrs: Vec<(String, Vec<Bytes>)> },
    Reference { uris: Vec<String> },
    Intermediate { name: Option<String>, val: Option<Bytes> },
    /// Raw pre-encoded protocolOp element
    RawOp(Tlv),
}

#[derive(Clone, Debug, PartialEq, Eq, Hash, Serialize, Deserialize)]
pub struct Resp {
    pub id: i64,
    pub op: RespOp,
    pub ctrls: Option<Vec<Ctl>>,
}

pub fn encode_controls(cs: &[Ctl]) -> Tlv {
    Tlv::cons(
        Class::Ctx,
        0,
        cs.iter()
            .map(|c| {
                let mut v = vec![Tlv::octets(c.oid.clone())];
                if let Some(b) = c.crit {
                    // BER: any non-zero octet is TRUE. Which one this (response) control carries is a function
                    // of its content, so that a run is still decided by its scenario alone.
                    let h = c.oid.iter().chain(c.val.iter().flatten()).fold(0x9eu8, |h, x| h.rotate_left(3) ^ *x);
                    let t = [0xFFu8, 0xFF, 0x01, 0x80, 0x7F, 0xFF, 0x10, 0xFE][(h % 8) as usize];
                    v.push(Tlv::prim(Class::Univ, 1, vec![if b { t } else { 0 }]));
                }
                if let Some(val) = &c.val {
                    v.push(Tlv::octets(val.clone()));
                }
                Tlv::seq(v)
            })
            .collect(),
    )
}

pub fn result_tlv(tag: u32, r: &ResultSpec) -> Tlv {
    let mut v = vec![
        match &r.rc_octets {
            Some(o) => Tlv::prim(Class::Univ, 10, o.clone()),
            None => Tlv::enumerated(r.rc_wide.map(|w| w.min(i64::MAX as u64) as i64).unwrap_or(r.rc as i64)),
        },
        Tlv::octets(r.matched.as_bytes()),
        Tlv::octets(r.text.as_bytes()),
    ];
    if let Some(refs) = &r.refs {
        v.push(Tlv::cons(Class::Ctx, 3, refs.iter().map(|u| Tlv::octets(u.as_bytes())).collect()));
    }
    if let Some(c) = &r.sasl_creds {
        v.push(Tlv::prim(Class::Ctx, 7, c.clone()));
    }
    if let Some(n) = &r.exop_name {
        v.push(Tlv::prim(Class::Ctx, 10, n.as_bytes()));
    }
    if let Some(x) = &r.exop_val {
        v.push(Tlv::prim(Class::Ctx, 11, x.clone()));
    }
    Tlv::cons(Class::App, tag, v)
}

pub fn op_tlv(op: &RespOp) -> Tlv {
    match op {
        RespOp::Result { tag, res } => result_tlv(*tag, res),
        RespOp::Entry { dn, attrs } => Tlv::cons(
            Class::App,
            4,
            vec![
                Tlv::octets(dn.as_bytes()),
                Tlv::seq(
                    attrs
                        .iter()
                        .map(|(n, vals)| {
                            Tlv::seq(vec![
                                Tlv::octets(n.as_bytes()),
                                Tlv::set(vals.iter().map(|v| Tlv::octets(v.clone())).collect()),
                            ])
                        })
                        .collect(),
                ),
            ],
        ),
        RespOp::Reference { uris } => {
            Tlv::cons(Class::App, 19, uris.iter().map(|u| Tlv::octets(u.as_bytes())).collect())
        }
        RespOp::Intermediate { name, val } => {
            let mut v = vec![];
            if let Some(n) = name {
                v.push(Tlv::prim(Class::Ctx, 0, n.as_bytes()));
            }
            if let Some(x) = val {
                v.push(Tlv::prim(Class::Ctx, 1, x.clone()));
            }
            Tlv::cons(Class::App, 25, v)
        }
        RespOp::RawOp(t) => t.clone(),
    }
}

pub fn resp_tlv(r: &Resp) -> Tlv {
    let mut v = vec![Tlv::int(r.id), op_tlv(&r.op)];
    if let Some(cs) = &r.ctrls {
        v.push(encode_controls(cs));
    }
    Tlv::seq(v)
}

// ---------------------------------------------------------------------------------------------
// Filter rendering (harness side of RFC 4515) for generated syntax trees
// ---------------------------------------------------------------------------------------------

/// Escape an assertion value for a filter string. `style` selects how aggressively:
/// 0 = only what must be escaped, 1 = upper-case hex, 2 = escape everything.
pub fn filter_escape(v: &[u8], style: u8, out: &mut String) {
    // Values are rendered as UTF-8 strings; bytes that are not part of valid UTF-8 text
    // or are special get hex-escaped.
    let s = std::str::from_utf8(v).ok();
    match s {
        Some(s) if style != 2 => {
            for ch in s.chars() {
                match ch {
                    '\\' | '*' | '(' | ')' | '\0' => {
                        let c = ch as u32;
                        if style == 1 {
                            out.push_str(&format!("\\{:02X}", c));
                        } else {
                            out.push_str(&format!("\\{:02x}", c));
                        }
                    }
                    _ => out.push(ch),
                }
            }
        }
        _ => {
            for b in v {
                out.push_str(&format!("\\{:02x}", b));
            }
        }
    }
}

pub fn render_filter(f: &Filter, style: u8, out: &mut String) {
    let a = |b: &Bytes| String::from_utf8_lossy(b).into_owned();
    out.push('(');
    match f {
        Filter::And(v) => {
            out.push('&');
            for x in v {
                render_filter(x, style, out);
            }
        }
        Filter::Or(v) => {
            out.push('|');
            for x in v {
                render_filter(x, style, out);
            }
        }
        Filter::Not(x) => {
            out.push('!');
            render_filter(x, style, out);
        }
        Filter::Eq(at, v) => {
            out.push_str(&a(at));
            out.push('=');
            filter_escape(v, style, out);
        }
        Filter::Ge(at, v) => {
            out.push_str(&a(at));
            out.push_str(">=");
            filter_escape(v, style, out);
        }
        Filter::Le(at, v) => {
            out.push_str(&a(at));
            out.push_str("<=");
            filter_escape(v, style, out);
        }
        Filter::Approx(at, v) => {
            out.push_str(&a(at));
            out.push_str("~=");
            filter_escape(v, style, out);
        }
        Filter::Present(at) => {
            out.push_str(&a(at));
            out.push_str("=*");
        }
        Filter::Sub { attr, initial, any, fin } => {
            out.push_str(&a(attr));
            out.push('=');
            if let Some(i) = initial {
                filter_escape(i, style, out);
            }
            out.push('*');
            for x in any {
                filter_escape(x, style, out);
                out.push('*');
            }
            if let Some(x) = fin {
                filter_escape(x, style, out);
            }
        }
        Filter::Ext { rule, attr, value, dn } => {
            if let Some(at) = attr {
                out.push_str(&a(at));
            }
            if *dn {
                out.push_str(":dn");
            }
            if let Some(r) = rule {
                out.push(':');
                out.push_str(&a(r));
            }
            out.push_str(":=");
            filter_escape(value, style, out);
        }
    }
    out.push(')');
}
