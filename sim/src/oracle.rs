//! Oracles: checks over the recorded history of one run.

use crate::model::{self, StreamModel};
use crate::runner::RunResult;
use crate::scenario::{OpSpec, ReplyPlan, Scenario, Step};
use crate::world::{Ev, EvKind, Ret};
use serde::{Deserialize, Serialize};
use std::collections::BTreeMap;

#[derive(Clone, Debug, PartialEq, Eq, Serialize, Deserialize)]
pub struct Violation {
    pub property: String,
    /// oracle clause, e.g. "C01.a"
    pub clause: String,
    /// stable discriminator naming what failed (survives refactoring)
    pub signature: String,
    pub detail: String,
}

impl Violation {
    pub fn new(property: &str, clause: &str, signature: impl Into<String>, detail: impl Into<String>) -> Violation {
        Violation { property: property.into(), clause: clause.into(), signature: signature.into(), detail: detail.into() }
    }
    pub fn key(&self) -> String {
        format!("{}|{}", self.clause, self.signature)
    }
}

pub fn returns_by_step(hist: &[Ev]) -> BTreeMap<(usize, usize), (&Ret, i32, u64, u64)> {
    let mut m = BTreeMap::new();
    for e in hist {
        if let EvKind::Return { client, step, ret, last_id, .. } = &e.kind {
            m.insert((*client, *step), (ret, *last_id, e.t_ms, e.seq));
        }
    }
    m
}

pub fn invokes_by_step(hist: &[Ev]) -> BTreeMap<(usize, usize), (u64, u64)> {
    let mut m = BTreeMap::new();
    for e in hist {
        if let EvKind::Invoke { client, step, .. } = &e.kind {
            m.insert((*client, *step), (e.t_ms, e.seq));
        }
    }
    m
}

/// All strings that identify server emissions inside a returned value (for misrouting diagnosis).
fn tokens_in(ret: &Ret) -> String {
    let mut s = format!("{:?}", ret);
    s.push_str(" | text: ");
    fn tlv(t: &crate::ber::Tlv, out: &mut String) {
        match &t.body {
            crate::ber::Body::Prim(v) => {
                out.push_str(&String::from_utf8_lossy(v));
                out.push(' ');
            }
            crate::ber::Body::Cons(v) => v.iter().for_each(|x| tlv(x, out)),
        }
    }
    fn res(r: &crate::world::ResC, out: &mut String) {
        for c in &r.ctrls {
            if let Some(v) = &c.val {
                out.push_str(&String::from_utf8_lossy(v));
                out.push(' ');
            }
        }
    }
    fn item(i: &crate::world::ItemC, out: &mut String) {
        tlv(&i.tlv, out);
        for c in &i.ctrls {
            if let Some(v) = &c.val {
                out.push_str(&String::from_utf8_lossy(v));
                out.push(' ');
            }
        }
    }
    match ret {
        Ret::Res(r) | Ret::Cmp(r) | Ret::Fin(r) => res(r, &mut s),
        Ret::Exop { val, res: r, .. } => {
            if let Some(v) = val {
                s.push_str(&String::from_utf8_lossy(v));
                s.push(' ');
            }
            res(r, &mut s)
        }
        Ret::Search { entries, res: r } => {
            entries.iter().for_each(|e| item(e, &mut s));
            res(r, &mut s)
        }
        Ret::Item(Some(i)) => item(i, &mut s),
        _ => {}
    }
    s
}

fn lifecycle(step: &Step) -> &'static str {
    match step {
        Step::Op { op, .. } => crate::client::op_kind(op),
        Step::Open { .. } => "open",
        Step::OpenDropped { .. } => "open-dropped",
        Step::Next { .. } => "next",
        Step::Finish { .. } => "finish",
        Step::State { .. } => "state",
        _ => "other",
    }
}

#[derive(Clone, Debug)]
pub struct Mismatch {
    pub client: usize,
    pub step: usize,
    pub what: &'static str,
    pub expected: String,
    pub actual: String,
    /// the actual value carries content that belongs to another operation
    pub foreign: bool,
    pub missing: bool,
    /// context for signatures: adapter and phase of the stream, or empty
    pub ctx: String,
}

pub struct WalkOpts {
    /// compare `state()` results and calls after the end of a stream (C10)
    pub strict_stream: bool,
}

/// Walk every client script with the reference model and compare each returned value.
/// Valid for fault-free runs without timeouts.
pub fn walk_plain(sc: &Scenario, hist: &[Ev], opts: &WalkOpts) -> Vec<Mismatch> {
    let rets = returns_by_step(hist);
    let mut out = vec![];
    // all tokens, to diagnose foreign content
    let all_tokens: Vec<&String> = sc.plan.by_token.keys().collect();
    // operations abandoned from another handle while in flight: their callers must be released with an error
    let abandoned: std::collections::BTreeSet<&String> = sc
        .clients
        .iter()
        .flat_map(|c| c.steps.iter())
        .filter_map(|s| match s {
            Step::Op { op: OpSpec::Abandon(crate::scenario::IdRef::Token(t)), .. } if t.starts_with('v') => Some(t),
            _ => None,
        })
        .collect();
    for (c, cs) in sc.clients.iter().enumerate() {
        let mut dropped = false;
        let mut streams: BTreeMap<usize, Option<(StreamModel, String)>> = BTreeMap::new();
        for (ix, step) in cs.steps.iter().enumerate() {
            let actual = rets.get(&(c, ix)).map(|x| x.0);
            let ctx = match step {
                Step::Next { slot, .. } | Step::Finish { slot } | Step::State { slot } => match streams.get(slot) {
                    Some(Some((m, _))) => format!("{:?}/{}", m.adapter, m.state.phase()),
                    _ => String::new(),
                },
                Step::Op { op: OpSpec::Search(_), .. } => "search()".to_string(),
                _ => String::new(),
            };
            let mut check = |expected: Option<Ret>, alt_cancel: bool, own_tok: &str, fin: bool| {
                let what = lifecycle(step);
                match (actual, expected) {
                    (None, _) => out.push(Mismatch {
                        client: c,
                        step: ix,
                        what,
                        expected: "a return".into(),
                        actual: "no return".into(),
                        foreign: false,
                        missing: true,
                        ctx: ctx.clone(),
                    }),
                    (Some(_), None) => {}
                    (Some(a), Some(e)) => {
                        if alt_cancel && *a == Ret::Cancelled {
                            return;
                        }
                        let ok = if fin { model::fin_matches(a, &e) } else { *a == e };
                        if !ok {
                            let s = tokens_in(a);
                            let foreign = all_tokens.iter().any(|t| t.as_str() != own_tok && contains_token(&s, t));
                            out.push(Mismatch {
                                client: c,
                                step: ix,
                                what,
                                expected: format!("{:?}", e),
                                actual: s,
                                foreign,
                                missing: false,
                                ctx: ctx.clone(),
                            });
                        }
                    }
                }
            };
            match step {
                Step::DropHandle => dropped = true,
                Step::Op { token, op, cancel_after_polls, .. } => {
                    if dropped {
                        check(Some(Ret::Skipped), false, token, false);
                        continue;
                    }
                    if abandoned.contains(token) {
                        match actual {
                            Some(Ret::Err(_)) => {}
                            other => out.push(Mismatch {
                                client: c,
                                step: ix,
                                what: "abandoned-in-flight",
                                expected: "an error (the operation was abandoned while its caller waited)".into(),
                                actual: clip(&format!("{:?}", other)),
                                foreign: false,
                                missing: other.is_none(),
                                ctx: String::new(),
                            }),
                        }
                        continue;
                    }
                    let exp = match op {
                        OpSpec::Abandon(_) | OpSpec::Unbind => Some(Ret::Unit),
                        OpSpec::Search(_) => match sc.plan.by_token.get(token) {
                            Some(ReplyPlan::Items { items, done: Some(d), .. }) => Some(model::search_expect(items, d)),
                            _ => None,
                        },
                        _ => match sc.plan.by_token.get(token) {
                            Some(ReplyPlan::Single { res, ctrls, .. }) => Some(model::single_expect(op, res, ctrls)),
                            _ => None,
                        },
                    };
                    check(exp, cancel_after_polls.is_some(), token, false);
                }
                Step::Open { token, slot, adapter, mods, .. } => {
                    if dropped {
                        check(Some(Ret::Skipped), false, token, false);
                        continue;
                    }
                    let mut m = sc.plan.by_token.get(token).and_then(|p| StreamModel::open(p, *adapter, mods.timeout_ms));
                    if abandoned.contains(token) {
                        // a stream abandoned from another handle (generator's convention: everything from the first
                        // item with a gap of 40 ms or more comes after the abandon): what was sent before is delivered,
                        // then the stream fails; the late items reach nobody
                        if let Some(mm) = m.as_mut() {
                            mm.abandon_from_elsewhere(40);
                        }
                    }
                    streams.insert(*slot, m.map(|m| (m, token.clone())));
                    check(Some(Ret::Opened), false, token, false);
                }
                Step::Next { slot, cancel_after_polls } => match streams.get_mut(slot) {
                    Some(Some((m, tok))) => {
                        if actual == Some(&Ret::Cancelled) && cancel_after_polls.is_some() {
                            continue;
                        }
                        let past_end = m.state != model::SState::Active;
                        if past_end && !opts.strict_stream {
                            continue;
                        }
                        if !opts.strict_stream && actual == Some(&Ret::Skipped) {
                            continue;
                        }
                        let e = m.next();
                        let tok = tok.clone();
                        check(Some(e), false, &tok, false);
                    }
                    _ => check(Some(Ret::Skipped), false, "", false),
                },
                Step::Finish { slot } => match streams.get_mut(slot) {
                    Some(Some((m, tok))) => {
                        let e = m.finish();
                        let tok = tok.clone();
                        check(Some(e), false, &tok, true);
                    }
                    _ => check(Some(Ret::Skipped), false, "", false),
                },
                Step::State { slot } => match streams.get(slot) {
                    Some(Some((m, tok))) => {
                        if opts.strict_stream {
                            let tok = tok.clone();
                            check(Some(Ret::State(m.state.name().to_string())), false, &tok, false);
                        }
                    }
                    _ => check(Some(Ret::Skipped), false, "", false),
                },
                Step::DropStream { slot } => {
                    streams.insert(*slot, None);
                }
                Step::StreamAbandon { slot } => {
                    if let Some(Some((m, tok))) = streams.get_mut(slot) {
                        if m.state == model::SState::Active {
                            m.abandoned = true;
                        }
                        if opts.strict_stream {
                            let tok = tok.clone();
                            check(Some(Ret::Unit), false, &tok, false);
                        }
                    }
                }
                _ => {}
            }
        }
    }
    out
}

/// Does the rendered value mention `tok` as a whole token (followed by ':' or a non-token char)?
fn contains_token(s: &str, tok: &str) -> bool {
    let mut start = 0;
    while let Some(p) = s[start..].find(tok) {
        let i = start + p;
        let before_ok = i == 0 || !s.as_bytes()[i - 1].is_ascii_alphanumeric();
        let after = s.as_bytes().get(i + tok.len()).copied();
        let after_ok = match after {
            None => true,
            Some(b) => !b.is_ascii_alphanumeric(),
        };
        if before_ok && after_ok {
            return true;
        }
        start = i + tok.len();
    }
    false
}

/// client indices whose actor panicked
pub fn dead_clients(hist: &[Ev]) -> std::collections::BTreeSet<usize> {
    hist.iter()
        .filter_map(|e| match &e.kind {
            EvKind::Panic { actor, .. } => actor.strip_prefix("client").and_then(|n| n.parse().ok()),
            _ => None,
        })
        .collect()
}

pub fn panics(hist: &[Ev]) -> Vec<(String, String, String)> {
    hist.iter()
        .filter_map(|e| match &e.kind {
            EvKind::Panic { actor, msg, file } => Some((actor.clone(), msg.clone(), file.clone())),
            _ => None,
        })
        .collect()
}

fn short_file(f: &str) -> String {
    f.rsplit('/').take(2).collect::<Vec<_>>().into_iter().rev().collect::<Vec<_>>().join("/")
}

/// Clauses shared by every fault-free lane: the run must finish and nothing may panic.
pub fn check_clean_run(prop: &str, rr: &RunResult) -> Vec<Violation> {
    let mut v = vec![];
    match rr.verdict {
        crate::exec::Verdict::Done => {}
        crate::exec::Verdict::Hang => v.push(Violation::new(prop, &format!("{prop}.hang"), "hang", "a call or the driver did not complete before the virtual-time watchdog")),
        crate::exec::Verdict::StepCap => v.push(Violation::new(prop, &format!("{prop}.hang"), "livelock", "step cap reached")),
    }
    for (actor, msg, file) in panics(&rr.hist) {
        let who = if actor.starts_with("client") { "client" } else { actor.as_str() };
        v.push(Violation::new(prop, &format!("{prop}.panic"), format!("panic/{who}/{}/{}", short_file(&file), trunc(&msg, 60)), format!("{actor} panicked: {msg} ({file})")));
    }
    v
}

pub fn trunc(s: &str, n: usize) -> String {
    // strip digits so that IDs/lengths do not split signatures
    let t: String = s.chars().map(|c| if c.is_ascii_digit() { '#' } else { c }).collect();
    t.chars().take(n).collect()
}

/// C01: routing. Family MUX (fault-free, no timeouts).
pub fn check_c01(sc: &Scenario, rr: &RunResult) -> Vec<Violation> {
    let mut v = check_clean_run("C01", rr);
    let dead = dead_clients(&rr.hist);
    for m in walk_plain(sc, &rr.hist, &WalkOpts { strict_stream: false }) {
        if m.missing && (dead.contains(&m.client) || rr.verdict != crate::exec::Verdict::Done) {
            // already reported as panic / hang
            continue;
        }
        let (clause, sig) = if m.missing {
            ("C01.d", format!("no-return/{}", m.what))
        } else if m.foreign {
            ("C01.a", format!("foreign-content/{}", m.what))
        } else if m.what == "next" || m.what == "search" {
            ("C01.b", format!("wrong-sequence/{}", m.what))
        } else {
            ("C01.d", format!("wrong-value/{}", m.what))
        };
        v.push(Violation::new(
            "C01",
            clause,
            sig,
            format!("client {} step {}: expected {} got {}", m.client, m.step, clip(&m.expected), clip(&m.actual)),
        ));
    }
    v
}

pub fn clip(s: &str) -> String {
    if s.len() > 600 {
        let mut end = 600;
        while !s.is_char_boundary(end) {
            end -= 1;
        }
        format!("{}…", &s[..end])
    } else {
        s.to_string()
    }
}

/// C10: search-stream state machine. Family STREAM.
pub fn check_c10(sc: &Scenario, rr: &RunResult) -> Vec<Violation> {
    let mut v = check_clean_run("C10", rr);
    let dead = dead_clients(&rr.hist);
    for m in walk_plain(sc, &rr.hist, &WalkOpts { strict_stream: true }) {
        if m.missing && (dead.contains(&m.client) || rr.verdict != crate::exec::Verdict::Done) {
            continue;
        }
        let clause = match m.what {
            "state" => "C10.state",
            "finish" => "C10.finish",
            "search" => "C10.search",
            _ => "C10.items",
        };
        let sig = format!("{}/{}{}", m.what, m.ctx, if m.missing { "/no-return" } else { "" });
        v.push(Violation::new(
            "C10",
            clause,
            sig,
            format!("client {} step {}: expected {} got {}", m.client, m.step, clip(&m.expected), clip(&m.actual)),
        ));
    }
    v
}

/// Lifecycle class of the operation that owns `token` (for leak signatures).
pub fn lifecycle_class(sc: &Scenario, hist: &[Ev], token: &str) -> String {
    let rets = returns_by_step(hist);
    for (cidx, cs) in sc.clients.iter().enumerate() {
        for (ix, st) in cs.steps.iter().enumerate() {
            match st {
                Step::Op { token: t, op, mods, .. } if t == token => {
                    let kind = match op {
                        OpSpec::Search(_) => "search()",
                        OpSpec::Abandon(_) => "abandon",
                        OpSpec::Unbind => "unbind",
                        _ => "single",
                    };
                    let timed_out = matches!(rets.get(&(cidx, ix)).map(|x| x.0), Some(Ret::Err(crate::world::ErrC::Timeout)));
                    let how = match sc.plan.by_token.get(token) {
                        _ if timed_out => "timed-out",
                        Some(ReplyPlan::Silent) if mods.timeout_ms.is_some() => "timed-out",
                        Some(ReplyPlan::Silent) => "in-flight",
                        Some(ReplyPlan::Paged) => "paged",
                        _ => "completed",
                    };
                    return format!("{kind}/{how}");
                }
                Step::Open { token: t, slot, adapter, mods, .. } if t == token => {
                    let mut saw_end = false;
                    let mut saw_err = false;
                    for (off, later) in cs.steps[ix + 1..].iter().enumerate() {
                        match later {
                            Step::Next { slot: s2, .. } if s2 == slot => match rets.get(&(cidx, ix + 1 + off)).map(|x| x.0) {
                                Some(Ret::Item(None)) => saw_end = true,
                                Some(Ret::Err(_)) => saw_err = true,
                                _ => {}
                            },
                            Step::Finish { slot: s2 } | Step::DropStream { slot: s2 } if s2 == slot => break,
                            Step::Open { slot: s2, .. } if s2 == slot => break,
                            _ => {}
                        }
                    }
                    let how = if saw_err {
                        "errored"
                    } else if matches!(sc.plan.by_token.get(token), Some(ReplyPlan::Paged)) {
                        "paged"
                    } else if saw_end {
                        "read-to-end"
                    } else {
                        "finished-early"
                    };
                    let _ = mods;
                    return format!("stream-{:?}/{how}", adapter).replace(|c: char| c.is_ascii_digit(), "").replace("()", "");
                }
                _ => {}
            }
        }
    }
    "unknown".into()
}

/// C13: no residue at quiescent points; abandon clauses. Family LEAK.
pub fn check_c13(sc: &Scenario, rr: &RunResult) -> Vec<Violation> {
    let mut v = check_clean_run("C13", rr);
    let phantoms: std::collections::BTreeSet<i32> = sc.id_table.as_ref().map(|t| t.1.iter().copied().collect()).unwrap_or_default();
    // id -> token as seen by the server
    let mut tok_of: BTreeMap<i64, (String, String)> = BTreeMap::new();
    for e in &rr.hist {
        if let EvKind::SrvRecv { id, token, kind, .. } = &e.kind {
            tok_of.insert(*id, (token.clone(), kind.clone()));
        }
    }
    let class_of = |id: i32| -> String {
        match tok_of.get(&(id as i64)) {
            Some((t, k)) => {
                let c = lifecycle_class(sc, &rr.hist, t);
                if c == "unknown" {
                    format!("{k}/own-id")
                } else {
                    c
                }
            }
            None => "never-sent".into(),
        }
    };
    // The statement speaks of finished searches: a stream on which finish() was never called (still held, or
    // dropped) may keep its ID. Tokens of such streams:
    let rets_all = returns_by_step(&rr.hist);
    let mut unfinished: std::collections::BTreeSet<String> = Default::default();
    for (c, cs) in sc.clients.iter().enumerate() {
        for (ix, st) in cs.steps.iter().enumerate() {
            if let Step::OpenDropped { token, .. } = st {
                // If the request reached the server, the search is one nobody finished (outside the statement's
                // histories). If it never left the client, nothing may remain of it: its ID then has no token
                // here and is reported as never-sent.
                unfinished.insert(token.clone());
            }
            if let Step::Open { token, slot, .. } = st {
                if !matches!(rets_all.get(&(c, ix)).map(|x| x.0), Some(Ret::Opened)) {
                    continue;
                }
                let mut finished = false;
                for (off, later) in cs.steps[ix + 1..].iter().enumerate() {
                    match later {
                        Step::Finish { slot: s2 } if s2 == slot => {
                            finished = matches!(rets_all.get(&(c, ix + 1 + off)).map(|x| x.0), Some(Ret::Fin(_)));
                            break;
                        }
                        Step::Open { slot: s2, .. } if s2 == slot => break,
                        _ => {}
                    }
                }
                if !finished {
                    unfinished.insert(token.clone());
                }
            }
        }
    }
    let owner_unfinished = |id: i32| -> bool { tok_of.get(&(id as i64)).map_or(false, |(t, _)| unfinished.contains(t)) };
    let driver_alive_at = |seq: u64| !rr.hist.iter().any(|e| e.seq < seq && matches!(e.kind, EvKind::DriverExit { .. }));
    for e in &rr.hist {
        if let EvKind::Snapshot { label, in_use, resultmap, searchmap, .. } = &e.kind {
            if !driver_alive_at(e.seq) {
                continue;
            }
            for id in in_use.iter().filter(|i| !phantoms.contains(i) && !owner_unfinished(**i)) {
                v.push(Violation::new("C13", "C13.ids", format!("id-reserved/{}", class_of(*id)), format!("at {label} checkpoint (t={}ms) message ID {id} is still reserved although no operation is outstanding", e.t_ms)));
            }
            for id in resultmap {
                v.push(Violation::new("C13", "C13.routing", format!("resultmap/{}", class_of(*id)), format!("at {label} checkpoint the single-result routing map still holds ID {id}")));
            }
            for id in searchmap.iter().filter(|i| !owner_unfinished(**i)) {
                v.push(Violation::new("C13", "C13.routing", format!("searchmap/{}", class_of(*id)), format!("at {label} checkpoint the search routing map still holds ID {id}")));
            }
        }
    }
    // abandon clauses (the interpreter resolves "the ID of that operation" from the server's log, which lags behind
    // while the peer has stopped reading: not in runs with a stalled peer)
    if sc.knobs.write_stall.is_some() {
        return v;
    }
    let rets = returns_by_step(&rr.hist);
    let mut abandons_seen: Vec<i64> = rr.requests.iter().filter_map(|q| if let crate::msg::ReqOp::Abandon { id } = &q.op { Some(*id) } else { None }).collect();
    for (c, cs) in sc.clients.iter().enumerate() {
        for (ix, st) in cs.steps.iter().enumerate() {
            if let Step::Op { op: OpSpec::Abandon(crate::scenario::IdRef::Token(target)), .. } = st {
                let Some((ret, ..)) = rets.get(&(c, ix)) else { continue };
                if **ret != Ret::Unit {
                    continue;
                }
                // the ID the server saw for the target
                let wire = rr.hist.iter().find_map(|e| match &e.kind {
                    EvKind::SrvRecv { id, token, .. } if token == target => Some(*id),
                    _ => None,
                });
                let Some(wire) = wire else { continue };
                match abandons_seen.iter().position(|x| *x == wire) {
                    Some(p) => {
                        abandons_seen.remove(p);
                    }
                    None => v.push(Violation::new("C13", "C13.abandon-wire", format!("abandon-names-wrong-id/{}", lifecycle_class(sc, &rr.hist, target)), format!("abandon of {target} (wire ID {wire}) did not produce an AbandonRequest naming that ID"))),
                }
                // a caller waiting on an in-flight target must be released with an error
                if lifecycle_class(sc, &rr.hist, target).ends_with("in-flight") {
                    for (c2, cs2) in sc.clients.iter().enumerate() {
                        for (ix2, st2) in cs2.steps.iter().enumerate() {
                            if let Step::Op { token, .. } = st2 {
                                if token == target {
                                    match rets.get(&(c2, ix2)) {
                                        Some((Ret::Err(_), ..)) => {}
                                        Some((other, ..)) => v.push(Violation::new("C13", "C13.abandon-release", "abandoned-caller-not-error", format!("caller of abandoned {target} returned {:?}", other))),
                                        None => {
                                            if rr.verdict == crate::exec::Verdict::Done {
                                                v.push(Violation::new("C13", "C13.abandon-release", "abandoned-caller-never-returned", format!("caller of abandoned {target} never returned")))
                                            }
                                        }
                                    }
                                }
                            }
                        }
                    }
                }
            }
        }
    }
    v
}

/// C05 black box: IDs seen by the server. Valid for every family without duplicate/late traffic.
pub fn check_c05_blackbox(sc: &Scenario, rr: &RunResult) -> Vec<Violation> {
    let mut v = vec![];
    let phantoms: std::collections::BTreeSet<i64> = sc.id_table.as_ref().map(|t| t.1.iter().map(|x| *x as i64).collect()).unwrap_or_default();
    // when does the call that owns `token` stop being outstanding? (event seq)
    let rets = returns_by_step(&rr.hist);
    let mut end_of: BTreeMap<String, u64> = BTreeMap::new();
    for (c, cs) in sc.clients.iter().enumerate() {
        for (ix, st) in cs.steps.iter().enumerate() {
            match st {
                Step::Op { token, .. } => {
                    if let Some((_, _, _, seq)) = rets.get(&(c, ix)) {
                        end_of.insert(token.clone(), *seq);
                    }
                }
                Step::Open { token, slot, .. } => {
                    // outstanding until the stream is finished (or the open failed)
                    let mut end = None;
                    if let Some((Ret::Err(_), _, _, seq)) = rets.get(&(c, ix)) {
                        end = Some(*seq);
                    }
                    if end.is_none() {
                        for (off, later) in cs.steps[ix + 1..].iter().enumerate() {
                            match later {
                                Step::Finish { slot: s2 } if s2 == slot => {
                                    end = rets.get(&(c, ix + 1 + off)).map(|x| x.3);
                                    break;
                                }
                                Step::Open { slot: s2, .. } if s2 == slot => break,
                                _ => {}
                            }
                        }
                    }
                    if let Some(e) = end {
                        end_of.insert(token.clone(), e);
                    }
                }
                _ => {}
            }
        }
    }
    // an operation also stops being outstanding once its final response has been delivered to the
    // client's transport (the driver releases the ID when it routes that response)
    let mut final_end: BTreeMap<String, usize> = BTreeMap::new();
    for e in &rr.hist {
        if let EvKind::SrvEmit { label, range, .. } = &e.kind {
            if let Some(tok) = label.strip_suffix(":reply").or_else(|| label.strip_suffix(":done")) {
                final_end.insert(tok.to_string(), range.1);
            }
        }
    }
    for e in &rr.hist {
        if let EvKind::NetDeliver { upto } = &e.kind {
            for (tok, end) in &final_end {
                if *upto >= *end {
                    let cur = end_of.get(tok).copied();
                    if cur.map_or(true, |c| c > e.seq) {
                        end_of.insert(tok.clone(), e.seq);
                    }
                }
            }
        }
    }
    // ... and once an AbandonRequest naming its ID has been sent
    {
        let mut id_of: BTreeMap<String, i64> = BTreeMap::new();
        for e in &rr.hist {
            if let EvKind::SrvRecv { id, token, .. } = &e.kind {
                id_of.entry(token.clone()).or_insert(*id);
            }
        }
        for (arrival, q) in rr.requests.iter().enumerate() {
            if let crate::msg::ReqOp::Abandon { id } = &q.op {
                let seq = rr.hist.iter().find_map(|e| match &e.kind {
                    EvKind::SrvRecv { arrival: a, .. } if *a == arrival => Some(e.seq),
                    _ => None,
                });
                if let Some(seq) = seq {
                    for (tok, tid) in &id_of {
                        if tid == id {
                            let cur = end_of.get(tok).copied();
                            if cur.map_or(true, |c| c > seq) {
                                end_of.insert(tok.clone(), seq);
                            }
                        }
                    }
                }
            }
        }
    }
    let mut seen: Vec<(i64, String, String, u64)> = vec![]; // id, token, kind, recv seq
    for e in &rr.hist {
        if let EvKind::SrvRecv { id, token, kind, .. } = &e.kind {
            if !(1..=2147483647).contains(id) {
                v.push(Violation::new("C05", "C05.range", format!("id-out-of-range/{kind}"), format!("request {token} left the client with message ID {id}")));
            }
            if phantoms.contains(id) {
                v.push(Violation::new("C05", "C05.inuse", format!("id-of-in-use-entry/{kind}"), format!("request {token} uses message ID {id}, which was in use (pre-seeded) for the whole run")));
            }
            for (id2, tok2, kind2, _) in &seen {
                if id2 == id {
                    // is the earlier request still outstanding?
                    let ended = if kind2 == "abandon" || kind2 == "unbind" { end_of.get(tok2).or(Some(&0)) } else { end_of.get(tok2) };
                    let outstanding = match ended {
                        None => true,
                        Some(s) => *s > e.seq,
                    };
                    if outstanding {
                        v.push(Violation::new(
                            "C05",
                            "C05.distinct",
                            format!("id-shared-with-outstanding/{kind2}+{kind}"),
                            format!("request {token} ({kind}) uses message ID {id} while {tok2} ({kind2}) with the same ID has not returned to its caller"),
                        ));
                    }
                }
            }
            seen.push((*id, token.clone(), kind.clone(), e.seq));
        }
    }
    v
}

/// C05 white box: table snapshots around the first poll of every operation (hook H4).
pub fn check_c05_whitebox(_sc: &Scenario, rr: &RunResult) -> Vec<Violation> {
    let mut v = vec![];
    let mut prev: Option<(usize, usize, i32, Vec<i32>)> = None;
    for e in &rr.hist {
        if let EvKind::AllocSnap { client, step, last, in_use } = &e.kind {
            match prev.take() {
                Some((c0, s0, last0, in0)) if c0 == *client && s0 == *step => {
                    let before: std::collections::BTreeSet<i32> = in0.iter().copied().collect();
                    let after: std::collections::BTreeSet<i32> = in_use.iter().copied().collect();
                    let added: Vec<i32> = after.difference(&before).copied().collect();
                    let removed: Vec<i32> = before.difference(&after).copied().collect();
                    if added.is_empty() && removed.is_empty() && *last == last0 {
                        // the call did not allocate (e.g. refused before sending)
                        continue;
                    }
                    let id = *last;
                    if before.contains(&id) {
                        v.push(Violation::new("C05", "C05.wb-inuse", "allocated-id-was-in-use", format!("client {client} step {step}: allocated {id} which was in the in-use set")));
                    }
                    if !(1..=2147483647).contains(&id) {
                        v.push(Violation::new("C05", "C05.wb-range", "allocated-id-out-of-range", format!("client {client} step {step}: allocated {id}")));
                    }
                    if added != vec![id] || !removed.is_empty() {
                        v.push(Violation::new("C05", "C05.wb-insert", "allocation-not-recorded", format!("client {client} step {step}: allocated {id}, in-use set changed by +{:?} -{:?}", added, removed)));
                    }
                    // upper end: everything from last0+1 to MAX in use (or last0 == MAX) => lowest free ID
                    let upper_exhausted = last0 == 2147483647 || {
                        let span = 2147483647i64 - last0 as i64;
                        span <= before.len() as i64 && (last0 as i64 + 1..=2147483647i64).all(|x| before.contains(&(x as i32)))
                    };
                    if upper_exhausted {
                        let mut low = 1;
                        while before.contains(&low) {
                            low += 1;
                        }
                        if id != low {
                            v.push(Violation::new("C05", "C05.wb-wrap", "wrap-not-lowest-free", format!("client {client} step {step}: counter at {last0} with the upper end exhausted; allocated {id}, lowest free ID is {low}")));
                        }
                    }
                }
                _ => prev = Some((*client, *step, *last, in_use.clone())),
            }
        }
    }
    v
}

pub fn check_c05(sc: &Scenario, rr: &RunResult) -> Vec<Violation> {
    let mut v = check_clean_run("C05", rr);
    v.extend(check_c05_blackbox(sc, rr));
    v.extend(check_c05_whitebox(sc, rr));
    if v.is_empty() {
        // two operations sharing an ID inside the client (even when the wire never shows both at once) lose or
        // swap their routes: in this fault-free family every call must return its planned value
        let dead = dead_clients(&rr.hist);
        for m in walk_plain(sc, &rr.hist, &WalkOpts { strict_stream: false }) {
            if m.missing && dead.contains(&m.client) {
                continue;
            }
            v.push(Violation::new(
                "C05",
                "C05.route",
                format!("{}/{}", m.what, if m.missing { "no-return" } else if m.foreign { "foreign-content" } else { "lost-or-wrong-value" }),
                format!("client {} step {}: expected {} got {}", m.client, m.step, clip(&m.expected), clip(&m.actual)),
            ));
        }
    }
    v
}

pub fn check_c05_mux(sc: &Scenario, rr: &RunResult) -> Vec<Violation> {
    let mut v = check_clean_run("C05", rr);
    v.extend(check_c05_blackbox(sc, rr));
    v
}

// ---------------------------------------------------------------------------------------------
// Timing-aware walk (family TIME)
// ---------------------------------------------------------------------------------------------

struct Emis {
    /// label -> (emit time, end offset in the response stream)
    by_label: BTreeMap<String, (u64, usize)>,
    /// (time, upto) of every network delivery, in order
    deliveries: Vec<(u64, usize)>,
    /// [start, end) of a write stall: while the driver is blocked writing it does not read, so when exactly a
    /// reply delivered in this window reaches its caller is not modelled
    stall: Option<(u64, u64)>,
}

impl Emis {
    fn new(hist: &[Ev]) -> Emis {
        let mut by_label = BTreeMap::new();
        let mut deliveries = vec![];
        let mut stall = None;
        for e in hist {
            match &e.kind {
                EvKind::SrvEmit { label, range, .. } => {
                    by_label.insert(label.clone(), (e.t_ms, range.1));
                }
                EvKind::NetDeliver { upto } => deliveries.push((e.t_ms, *upto)),
                EvKind::Fault { what, at } if what == "write_stall" => stall = Some((e.t_ms, e.t_ms + *at as u64)),
                _ => {}
            }
        }
        Emis { by_label, deliveries, stall }
    }
    /// virtual time at which the emission with this label became readable by the client
    fn delivered_at(&self, label: &str) -> Option<u64> {
        let (_, end) = self.by_label.get(label)?;
        self.deliveries.iter().find(|(_, upto)| upto >= end).map(|(t, _)| *t)
    }
}

#[derive(Clone, Debug)]
pub struct TimedMismatch {
    pub client: usize,
    pub step: usize,
    pub what: &'static str,
    pub ctx: String,
    pub kind: &'static str,
    pub detail: String,
}

enum Exp {
    /// value and the virtual time at which the call must return
    At(Ret, u64),
    /// a tie between arrival and deadline: both outcomes are legal; stop modelling this stream/op
    Ambiguous,
    /// the call can never return (nothing planned, no timeout): not generated
    Never,
}

/// `actual` with its result code replaced by the marker where the expectation carries the marker.
fn mask_unrepresentable_rc(actual: &Ret, e: &Ret) -> Ret {
    let m = model::RC_UNREPRESENTABLE;
    let mut a = actual.clone();
    match (&mut a, e) {
        (Ret::Res(x), Ret::Res(y)) | (Ret::Cmp(x), Ret::Cmp(y)) | (Ret::Fin(x), Ret::Fin(y)) if y.rc == m => x.rc = m,
        (Ret::Exop { res: x, .. }, Ret::Exop { res: y, .. }) | (Ret::Search { res: x, .. }, Ret::Search { res: y, .. }) if y.rc == m => x.rc = m,
        _ => {}
    }
    a
}

fn classify(actual: &Ret, at: u64, e: &Ret, et: u64, fin: bool) -> Option<&'static str> {
    let masked = mask_unrepresentable_rc(actual, e);
    let actual = &masked;
    let same = if fin { model::fin_matches(actual, e) } else { actual == e };
    if same {
        if at != et {
            return Some("wrong-time");
        }
        return None;
    }
    let a_to = matches!(actual, Ret::Err(crate::world::ErrC::Timeout));
    let e_to = matches!(e, Ret::Err(crate::world::ErrC::Timeout));
    Some(if a_to && !e_to {
        "timeout-although-reply-arrived-in-time"
    } else if !a_to && e_to {
        "no-timeout-at-deadline"
    } else {
        "wrong-value"
    })
}

/// Walk all clients with the timing model. Returns mismatches.
pub fn walk_timed(sc: &Scenario, rr: &RunResult) -> Vec<TimedMismatch> {
    let hist = &rr.hist;
    let rets = returns_by_step(hist);
    let invs = invokes_by_step(hist);
    let em = Emis::new(hist);
    // when the request carrying a token reached the server (= when the driver had written it)
    let written_at = |tok: &str| -> Option<u64> {
        hist.iter().find_map(|e| match &e.kind {
            EvKind::SrvRecv { token, .. } if token == tok => Some(e.t_ms),
            _ => None,
        })
    };
    // outcome of the submission of a search request: Ok(time it was acknowledged) / Err(expectation to report)
    let submit = |tok: &str, t0: u64, timeout: Option<u64>| -> Result<u64, Exp> {
        match (written_at(tok), timeout) {
            (Some(tw), None) => Ok(tw.max(t0)),
            (Some(tw), Some(t)) => {
                let deadline = t0.saturating_add(t);
                let tw = tw.max(t0);
                if tw < deadline {
                    Ok(tw)
                } else if tw == deadline {
                    Err(Exp::Ambiguous)
                } else {
                    Err(Exp::At(Ret::Err(crate::world::ErrC::Timeout), deadline))
                }
            }
            (None, Some(t)) if t != u64::MAX => Err(Exp::At(Ret::Err(crate::world::ErrC::Timeout), t0.saturating_add(t))),
            (None, _) => Err(Exp::Never),
        }
    };
    let mut out = vec![];
    struct St {
        tok: String,
        adapter: crate::scenario::Adapter,
        timeout: Option<u64>,
        cursor: usize,
        n_items: usize,
        has_done: bool,
        state: model::SState,
        refs: Vec<String>,
        result: Option<crate::world::ResC>,
        ambiguous: bool,
    }
    for (c, cs) in sc.clients.iter().enumerate() {
        let mut streams: BTreeMap<usize, Option<St>> = BTreeMap::new();
        let mut dropped = false;
        for (ix, step) in cs.steps.iter().enumerate() {
            let actual = rets.get(&(c, ix)).map(|x| (x.0, x.2));
            let t_inv = invs.get(&(c, ix)).map(|x| x.0);
            let mut report = |what: &'static str, ctx: String, exp: Exp, fin: bool| match exp {
                Exp::Ambiguous | Exp::Never => {}
                Exp::At(e, et) => match actual {
                    None => out.push(TimedMismatch { client: c, step: ix, what, ctx, kind: "no-return", detail: format!("expected {} at t={et}ms", clip(&format!("{:?}", e))) }),
                    Some((a, at)) => {
                        if let Some(kind) = classify(a, at, &e, et, fin) {
                            out.push(TimedMismatch {
                                client: c,
                                step: ix,
                                what,
                                ctx,
                                kind,
                                detail: format!("expected {} at t={et}ms, got {} at t={at}ms", clip(&format!("{:?}", e)), clip(&format!("{:?}", a))),
                            });
                        }
                    }
                },
            };
            // model of one (inner) receive on a search: returns Ok(Some(item index)) / Ok(None)=done / Err(timeout time) / ambiguous
            match step {
                Step::DropHandle => dropped = true,
                Step::Op { token, op, mods, .. } => {
                    if dropped {
                        continue;
                    }
                    let Some(t0) = t_inv else { continue };
                    match op {
                        OpSpec::Abandon(_) | OpSpec::Unbind => {
                            // acknowledged when written; the time is not modelled (requests without a token)
                            let at = actual.map(|a| a.1).unwrap_or(t0);
                            report(lifecycle(step), String::new(), Exp::At(Ret::Unit, at), false)
                        }
                        OpSpec::Search(_) => {
                            // search() = EntriesOnly loop with a per-receive timer
                            let Some(ReplyPlan::Items { items, done, .. }) = sc.plan.by_token.get(token) else { continue };
                            let mut cur = match submit(token, t0, mods.timeout_ms) {
                                Ok(t) => t,
                                Err(e) => {
                                    report("search", "search()/submission".into(), e, false);
                                    continue;
                                }
                            };
                            let mut entries = vec![];
                            let mut refs = vec![];
                            let mut exp = None;
                            for (i, it) in items.iter().enumerate() {
                                match recv_model(&em, &format!("{token}:item{i}"), cur, mods.timeout_ms) {
                                    Recv::At(t) => {
                                        cur = t;
                                        match &it.op {
                                            crate::msg::RespOp::Entry { .. } => entries.push(model::item_expect(&it.op, &it.ctrls)),
                                            crate::msg::RespOp::Reference { uris } => refs.extend(uris.iter().cloned()),
                                            _ => {}
                                        }
                                    }
                                    Recv::Timeout(t) => {
                                        exp = Some(Exp::At(Ret::Err(crate::world::ErrC::Timeout), t));
                                        break;
                                    }
                                    Recv::Ambiguous => {
                                        exp = Some(Exp::Ambiguous);
                                        break;
                                    }
                                    Recv::Never => {
                                        exp = Some(Exp::Never);
                                        break;
                                    }
                                }
                            }
                            if exp.is_none() {
                                exp = Some(match done {
                                    None => match mods.timeout_ms {
                                        Some(t) if t != u64::MAX => Exp::At(Ret::Err(crate::world::ErrC::Timeout), cur.saturating_add(t)),
                                        Some(_) => Exp::Never,
                                        None => Exp::Never,
                                    },
                                    Some(d) => match recv_model(&em, &format!("{token}:done"), cur, mods.timeout_ms) {
                                        Recv::At(t) => {
                                            let mut res = model::res_expect(&d.res, &d.ctrls);
                                            res.refs.extend(refs.clone());
                                            Exp::At(Ret::Search { entries: entries.clone(), res }, t)
                                        }
                                        Recv::Timeout(t) => Exp::At(Ret::Err(crate::world::ErrC::Timeout), t),
                                        Recv::Ambiguous => Exp::Ambiguous,
                                        Recv::Never => Exp::Never,
                                    },
                                });
                            }
                            report("search", "search()".into(), exp.unwrap(), false);
                        }
                        _ => {
                            let exp = match sc.plan.by_token.get(token) {
                                Some(ReplyPlan::Single { res, ctrls, .. }) => match recv_model(&em, &format!("{token}:reply"), t0, mods.timeout_ms) {
                                    Recv::At(t) => Exp::At(model::single_expect(op, res, ctrls), t),
                                    Recv::Timeout(t) => Exp::At(Ret::Err(crate::world::ErrC::Timeout), t),
                                    Recv::Ambiguous => Exp::Ambiguous,
                                    Recv::Never => Exp::Never,
                                },
                                Some(ReplyPlan::Silent) => match mods.timeout_ms {
                                    Some(t) if t != u64::MAX => Exp::At(Ret::Err(crate::world::ErrC::Timeout), t0.saturating_add(t)),
                                    Some(_) => Exp::Never,
                                    None => Exp::Never,
                                },
                                _ => Exp::Never,
                            };
                            let ctx = if mods.timeout_ms.is_some() { "timed" } else { "untimed" };
                            report(lifecycle(step), ctx.into(), exp, false);
                        }
                    }
                }
                Step::Open { token, slot, adapter, mods, .. } => {
                    if dropped {
                        continue;
                    }
                    let Some(t0) = t_inv else { continue };
                    let (n_items, has_done) = match sc.plan.by_token.get(token) {
                        Some(ReplyPlan::Items { items, done, .. }) => (items.len(), done.is_some()),
                        _ => {
                            // paged searches are modelled by the C16 lane; here only their residue counts
                            streams.insert(*slot, None);
                            continue;
                        }
                    };
                    let t_open = match submit(token, t0, mods.timeout_ms) {
                        Ok(t) => t,
                        Err(e) => {
                            streams.insert(*slot, None);
                            report("open", "submission".into(), e, false);
                            continue;
                        }
                    };
                    streams.insert(
                        *slot,
                        Some(St {
                            tok: token.clone(),
                            adapter: *adapter,
                            timeout: mods.timeout_ms,
                            cursor: 0,
                            n_items,
                            has_done,
                            state: model::SState::Active,
                            refs: vec![],
                            result: None,
                            ambiguous: false,
                        }),
                    );
                    report("open", String::new(), Exp::At(Ret::Opened, t_open), false);
                }
                Step::Next { slot, .. } => {
                    let Some(Some(st)) = streams.get_mut(slot) else { continue };
                    let Some(t0) = t_inv else { continue };
                    if st.ambiguous {
                        continue;
                    }
                    let ctx = format!("{:?}/{}{}", st.adapter, st.state.phase(), if st.timeout.is_some() { "/timed" } else { "" });
                    if st.state != model::SState::Active {
                        // calls outside Active are C10's business; the interpreter skips them in this family
                        continue;
                    }
                    let Some(ReplyPlan::Items { items, done, .. }) = sc.plan.by_token.get(&st.tok) else { continue };
                    let entries_only = st.adapter == crate::scenario::Adapter::EntriesOnly;
                    let mut cur = t0;
                    let exp = loop {
                        if st.cursor < st.n_items {
                            let it = &items[st.cursor];
                            match recv_model(&em, &format!("{}:item{}", st.tok, st.cursor), cur, st.timeout) {
                                Recv::At(t) => {
                                    cur = t;
                                    st.cursor += 1;
                                    if entries_only {
                                        match &it.op {
                                            crate::msg::RespOp::Entry { .. } => break Exp::At(Ret::Item(Some(model::item_expect(&it.op, &it.ctrls))), cur),
                                            crate::msg::RespOp::Reference { uris } => {
                                                st.refs.extend(uris.iter().cloned());
                                                continue;
                                            }
                                            _ => continue,
                                        }
                                    }
                                    break Exp::At(Ret::Item(Some(model::item_expect(&it.op, &it.ctrls))), cur);
                                }
                                Recv::Timeout(t) => {
                                    st.state = model::SState::Error;
                                    break Exp::At(Ret::Err(crate::world::ErrC::Timeout), t);
                                }
                                Recv::Ambiguous => {
                                    st.ambiguous = true;
                                    break Exp::Ambiguous;
                                }
                                Recv::Never => break Exp::Never,
                            }
                        } else if st.has_done {
                            let d = done.as_ref().unwrap();
                            match recv_model(&em, &format!("{}:done", st.tok), cur, st.timeout) {
                                Recv::At(t) => {
                                    st.result = Some(model::res_expect(&d.res, &d.ctrls));
                                    st.state = model::SState::Done;
                                    break Exp::At(Ret::Item(None), t);
                                }
                                Recv::Timeout(t) => {
                                    st.state = model::SState::Error;
                                    break Exp::At(Ret::Err(crate::world::ErrC::Timeout), t);
                                }
                                Recv::Ambiguous => {
                                    st.ambiguous = true;
                                    break Exp::Ambiguous;
                                }
                                Recv::Never => break Exp::Never,
                            }
                        } else {
                            match st.timeout {
                                Some(t) if t != u64::MAX => {
                                    st.state = model::SState::Error;
                                    break Exp::At(Ret::Err(crate::world::ErrC::Timeout), cur.saturating_add(t));
                                }
                                Some(_) => break Exp::Never,
                                None => break Exp::Never,
                            }
                        }
                    };
                    if actual.map(|a| a.0) == Some(&Ret::Skipped) {
                        continue;
                    }
                    report("next", ctx, exp, false);
                }
                Step::Finish { slot } => {
                    let Some(Some(st)) = streams.get_mut(slot) else { continue };
                    let Some(t0) = t_inv else { continue };
                    if st.ambiguous {
                        continue;
                    }
                    let ctx = format!("{:?}/{}", st.adapter, st.state.phase());
                    let e = if st.state == model::SState::Closed {
                        model::synthetic(80)
                    } else {
                        let mut r = st.result.take().unwrap_or_else(|| model::synthetic(88));
                        if st.adapter == crate::scenario::Adapter::EntriesOnly {
                            r.refs.extend(std::mem::take(&mut st.refs));
                        }
                        r
                    };
                    st.state = model::SState::Closed;
                    report("finish", ctx, Exp::At(Ret::Fin(e), t0), true);
                }
                Step::DropStream { slot } => {
                    streams.insert(*slot, None);
                }
                _ => {}
            }
        }
    }
    out
}

enum Recv {
    At(u64),
    Timeout(u64),
    Ambiguous,
    Never,
}

/// One receive that starts waiting at `cur` with an optional timer of `timeout` ms.
fn recv_model(em: &Emis, label: &str, cur: u64, timeout: Option<u64>) -> Recv {
    if let (Some(td), Some((s0, s1))) = (em.delivered_at(label), em.stall) {
        if td >= s0 && td <= s1 {
            return Recv::Ambiguous;
        }
    }
    match (em.delivered_at(label), timeout) {
        (Some(td), None) => Recv::At(td.max(cur)),
        (Some(td), Some(t)) => {
            let arrive = td.max(cur);
            let deadline = cur.saturating_add(t);
            if arrive < deadline {
                Recv::At(arrive)
            } else if arrive == deadline {
                Recv::Ambiguous
            } else {
                Recv::Timeout(deadline)
            }
        }
        (None, Some(t)) if t == u64::MAX => Recv::Never,
        (None, Some(t)) => Recv::Timeout(cur.saturating_add(t)),
        (None, None) => Recv::Never,
    }
}

/// residue at checkpoints (shared shape with C13, reported under the given property/clause)
pub fn residue(prop: &str, clause: &str, sc: &Scenario, rr: &RunResult) -> Vec<Violation> {
    check_c13(sc, rr)
        .into_iter()
        .filter(|v| v.clause == "C13.ids" || v.clause == "C13.routing")
        .map(|v| Violation::new(prop, clause, v.signature, v.detail))
        .collect()
}

/// C12: timeouts. Family TIME.
/// A next() on a paged stream opened with a per-item timeout T waits at most for the end of the page, the submission
/// of the follow-up request and the first item of the next page - each under a timer of T.
fn paged_next_bound(sc: &Scenario, rr: &RunResult) -> Vec<Violation> {
    let mut v = vec![];
    let rets = returns_by_step(&rr.hist);
    let invs = invokes_by_step(&rr.hist);
    for (c, cs) in sc.clients.iter().enumerate() {
        let mut timed: BTreeMap<usize, u64> = BTreeMap::new();
        for (ix, st) in cs.steps.iter().enumerate() {
            match st {
                Step::Open { slot, adapter, mods, .. } => {
                    let paged = matches!(adapter, crate::scenario::Adapter::Paged(_) | crate::scenario::Adapter::EntriesOnlyPaged(_) | crate::scenario::Adapter::PagedEntriesOnly(_));
                    match (paged, mods.timeout_ms) {
                        (true, Some(t)) if t < u64::MAX / 8 => {
                            timed.insert(*slot, t);
                        }
                        _ => {
                            timed.remove(slot);
                        }
                    }
                }
                Step::Next { slot, .. } => {
                    let Some(t) = timed.get(slot) else { continue };
                    let (Some(r), Some(i)) = (rets.get(&(c, ix)), invs.get(&(c, ix))) else { continue };
                    if *r.0 == Ret::Skipped {
                        continue;
                    }
                    let took = r.2.saturating_sub(i.0);
                    if took > 3 * *t {
                        v.push(Violation::new("C12", "C12.b", "next/paged/returns-after-more-than-three-timeouts", format!("client {c} step {ix}: next() on a paged stream with a timeout of {t}ms returned after {took}ms ({})", clip(&format!("{:?}", r.0)))));
                    }
                }
                _ => {}
            }
        }
    }
    v
}

pub fn check_c12(sc: &Scenario, rr: &RunResult) -> Vec<Violation> {
    let mut v = check_clean_run("C12", rr);
    if !v.is_empty() {
        return v;
    }
    for m in walk_timed(sc, rr) {
        let clause = match m.kind {
            "timeout-although-reply-arrived-in-time" => "C12.a",
            "no-timeout-at-deadline" | "wrong-time" => "C12.b",
            "wrong-value" => "C12.c",
            _ => "C12.d",
        };
        v.push(Violation::new("C12", clause, format!("{}/{}/{}", m.what, m.ctx, m.kind), format!("client {} step {}: {}", m.client, m.step, m.detail)));
    }
    v.extend(paged_next_bound(sc, rr));
    v.extend(residue("C12", "C12.e", sc, rr));
    v
}

// ---------------------------------------------------------------------------------------------
// C04: termination and failure propagation (family FAULT)
// ---------------------------------------------------------------------------------------------

#[derive(Clone, Copy, Debug, PartialEq)]
pub enum FaultMode {
    /// read-side fault (or none): everything the server sent before `at` must be returned, nothing after it
    Exact { at: usize },
    /// write-side / mixed fault, unbind: a planned value or an error
    Relaxed,
}

fn emission_ends(hist: &[Ev]) -> BTreeMap<String, (usize, usize)> {
    let mut m = BTreeMap::new();
    for e in hist {
        if let EvKind::SrvEmit { label, range, .. } = &e.kind {
            m.insert(label.clone(), *range);
        }
    }
    m
}

fn max_delivered(hist: &[Ev]) -> usize {
    hist.iter().filter_map(|e| if let EvKind::NetDeliver { upto } = &e.kind { Some(*upto) } else { None }).max().unwrap_or(0)
}

pub fn walk_fault(sc: &Scenario, rr: &RunResult, mode: FaultMode) -> Vec<Mismatch> {
    let hist = &rr.hist;
    let rets = returns_by_step(hist);
    let ems = emission_ends(hist);
    let maxd = max_delivered(hist);
    // is the emission with this label completely readable by the client?
    let arrived = |label: &str| -> bool {
        match ems.get(label) {
            None => false,
            Some((_, end)) => match mode {
                FaultMode::Exact { at } => *end <= at,
                FaultMode::Relaxed => *end <= maxd,
            },
        }
    };
    let exact = matches!(mode, FaultMode::Exact { .. });
    let mut out = vec![];
    for (c, cs) in sc.clients.iter().enumerate() {
        let mut dropped = false;
        struct St {
            tok: String,
            adapter: crate::scenario::Adapter,
            cursor: usize,
            state: model::SState,
            refs: Vec<String>,
            result: Option<crate::world::ResC>,
        }
        let mut streams: BTreeMap<usize, Option<St>> = BTreeMap::new();
        for (ix, step) in cs.steps.iter().enumerate() {
            if matches!(step, Step::DropHandle) {
                dropped = true;
                continue;
            }
            let Some((actual, ..)) = rets.get(&(c, ix)) else {
                // missing returns are reported by the termination clause
                continue;
            };
            let actual: &Ret = actual;
            let what = lifecycle(step);
            let mut push = |expected: String, ctx: String, foreign: bool| {
                out.push(Mismatch { client: c, step: ix, what, expected, actual: clip(&format!("{:?}", actual)), foreign, missing: false, ctx });
            };
            // Check one call: `planned` is the value if everything arrived (`ok_possible`), `must_ok` says the
            // value is mandatory.
            let mut judge = |planned: &Ret, ok_possible: bool, must_ok: bool, ctx: String, fin: bool| {
                let is_planned = if fin { model::fin_matches(actual, planned) } else { actual == planned };
                match actual {
                    Ret::Err(_) => {
                        if must_ok {
                            push(format!("{:?}", planned), format!("{ctx}/error-although-reply-was-delivered"), false);
                        }
                    }
                    _ if is_planned => {
                        if !ok_possible {
                            push("an error (the reply was never delivered)".into(), format!("{ctx}/value-that-was-not-received"), false);
                        }
                    }
                    _ => push(format!("{:?} or an error", planned), format!("{ctx}/wrong-value"), false),
                }
            };
            match step {
                Step::DropHandle => dropped = true,
                Step::Op { token, op, .. } => {
                    if dropped {
                        continue;
                    }
                    match op {
                        OpSpec::Abandon(_) | OpSpec::Unbind => {
                            // completes when the driver has written it, or fails
                            if !matches!(actual, Ret::Unit | Ret::Err(_)) {
                                push("Unit or an error".into(), String::new(), false);
                            }
                        }
                        OpSpec::Search(_) => {
                            let Some(ReplyPlan::Items { items, done: Some(d), .. }) = sc.plan.by_token.get(token) else { continue };
                            let all = (0..items.len()).all(|i| arrived(&format!("{token}:item{i}"))) && arrived(&format!("{token}:done"));
                            let planned = model::search_expect(items, d);
                            judge(&planned, all, all && exact, "search()".into(), false);
                        }
                        _ => {
                            let Some(ReplyPlan::Single { res, ctrls, .. }) = sc.plan.by_token.get(token) else { continue };
                            let a = arrived(&format!("{token}:reply"));
                            let planned = model::single_expect(op, res, ctrls);
                            judge(&planned, a, a && exact, "single".into(), false);
                        }
                    }
                }
                Step::Open { token, slot, adapter, .. } => {
                    if dropped {
                        continue;
                    }
                    match actual {
                        Ret::Opened => {
                            streams.insert(
                                *slot,
                                Some(St { tok: token.clone(), adapter: *adapter, cursor: 0, state: model::SState::Active, refs: vec![], result: None }),
                            );
                        }
                        Ret::Err(_) => {
                            streams.insert(*slot, None);
                        }
                        _ => push("Opened or an error".into(), String::new(), false),
                    }
                }
                Step::Next { slot, .. } => {
                    let Some(Some(st)) = streams.get_mut(slot) else { continue };
                    if *actual == Ret::Skipped || st.state != model::SState::Active {
                        continue;
                    }
                    let Some(ReplyPlan::Items { items, done, .. }) = sc.plan.by_token.get(&st.tok) else { continue };
                    let entries_only = st.adapter == crate::scenario::Adapter::EntriesOnly;
                    // walk emissions until the call has a value
                    let ctx = format!("{:?}", st.adapter);
                    let mut expected: Option<Ret> = None; // None = must be an error
                    let mut cur = st.cursor;
                    let mut refs_add: Vec<String> = vec![];
                    loop {
                        if cur < items.len() {
                            if !arrived(&format!("{}:item{}", st.tok, cur)) {
                                break;
                            }
                            let it = &items[cur];
                            cur += 1;
                            if entries_only {
                                match &it.op {
                                    crate::msg::RespOp::Entry { .. } => {
                                        expected = Some(Ret::Item(Some(model::item_expect(&it.op, &it.ctrls))));
                                        break;
                                    }
                                    crate::msg::RespOp::Reference { uris } => {
                                        refs_add.extend(uris.iter().cloned());
                                        continue;
                                    }
                                    _ => continue,
                                }
                            }
                            expected = Some(Ret::Item(Some(model::item_expect(&it.op, &it.ctrls))));
                            break;
                        } else if done.is_some() && arrived(&format!("{}:done", st.tok)) {
                            expected = Some(Ret::Item(None));
                            cur += 1;
                            break;
                        } else {
                            break;
                        }
                    }
                    match (&expected, actual) {
                        (_, Ret::Err(_)) => {
                            if expected.is_some() && exact {
                                push(format!("{:?}", expected.as_ref().unwrap()), format!("{ctx}/error-although-item-was-delivered"), false);
                            }
                            st.state = model::SState::Error;
                            // references consumed on the way stay collected
                            st.refs.extend(refs_add);
                        }
                        (Some(e), a) if *a == *e => {
                            st.cursor = cur;
                            st.refs.extend(refs_add);
                            if *e == Ret::Item(None) {
                                let d = done.as_ref().unwrap();
                                st.result = Some(model::res_expect(&d.res, &d.ctrls));
                                st.state = model::SState::Done;
                            }
                        }
                        (Some(e), _) => {
                            push(format!("{:?} or an error", e), format!("{ctx}/wrong-value"), false);
                            st.state = model::SState::Error;
                        }
                        (None, _) => {
                            push("an error (nothing more was delivered for this search)".into(), format!("{ctx}/value-that-was-not-received"), false);
                            st.state = model::SState::Error;
                        }
                    }
                }
                Step::Finish { slot } => {
                    let Some(Some(st)) = streams.get_mut(slot) else { continue };
                    let e = if st.state == model::SState::Closed {
                        model::synthetic(80)
                    } else {
                        let mut r = st.result.take().unwrap_or_else(|| model::synthetic(88));
                        if st.adapter == crate::scenario::Adapter::EntriesOnly {
                            r.refs.extend(std::mem::take(&mut st.refs));
                        }
                        r
                    };
                    let errored = st.state == model::SState::Error;
                    st.state = model::SState::Closed;
                    let mut ok = model::fin_matches(actual, &Ret::Fin(e.clone()));
                    if !ok && errored && !exact {
                        // the driver may have died before it read everything that was delivered: the
                        // references collected by the adapter are then a prefix of the modelled ones
                        if let Ret::Fin(a) = actual {
                            ok = a.rc == e.rc && a.ctrls.is_empty() && e.refs.starts_with(&a.refs);
                        }
                    }
                    if !ok {
                        push(format!("{:?}", e), format!("{:?}/finish", st.adapter), false);
                    }
                }
                Step::DropStream { slot } => {
                    streams.insert(*slot, None);
                }
                _ => {}
            }
        }
    }
    out
}

pub fn check_c04(sc: &Scenario, rr: &RunResult) -> Vec<Violation> {
    use crate::scenario::Fault;
    let mut v = vec![];
    // (a) termination
    match rr.verdict {
        crate::exec::Verdict::Done => {}
        crate::exec::Verdict::Hang => {
            // which calls are stuck?
            let rets = returns_by_step(&rr.hist);
            let mut stuck = vec![];
            for e in &rr.hist {
                if let EvKind::Invoke { client, step, what, .. } = &e.kind {
                    if !rets.contains_key(&(*client, *step)) {
                        stuck.push(what.trim_matches('"').split(':').next().unwrap_or("").to_string());
                    }
                }
            }
            stuck.sort();
            stuck.dedup();
            let driver_done = rr.hist.iter().any(|e| matches!(e.kind, EvKind::DriverExit { .. }));
            let sig = if stuck.is_empty() {
                if driver_done { "hang/unknown".to_string() } else { "hang/driver-never-returns".to_string() }
            } else {
                format!("hang/{}", stuck.join("+"))
            };
            v.push(Violation::new("C04", "C04.a", sig, "a call or the driver did not complete before the virtual-time watchdog"));
        }
        crate::exec::Verdict::StepCap => v.push(Violation::new("C04", "C04.a", "livelock", "step cap reached")),
    }
    for (actor, msg, file) in panics(&rr.hist) {
        let who = if actor.starts_with("client") { "client" } else { actor.as_str() };
        v.push(Violation::new("C04", "C04.panic", format!("panic/{who}/{}/{}", short_file(&file), trunc(&msg, 60)), format!("{actor} panicked: {msg} ({file})")));
    }
    if !v.is_empty() {
        return v;
    }
    // which kind of run is this?
    let has_unbind = sc.clients.iter().any(|c| c.steps.iter().any(|s| matches!(s, Step::Op { op: OpSpec::Unbind, .. })));
    let hostile_at = rr.hist.iter().find_map(|e| match &e.kind {
        EvKind::SrvEmit { label, range, .. } if label == "hostile" => Some(range.0),
        _ => None,
    });
    let hostile_end = rr.hist.iter().find_map(|e| match &e.kind {
        EvKind::SrvEmit { label, range, .. } if label == "hostile" => Some(range.1),
        _ => None,
    });
    let mut mode = FaultMode::Exact { at: usize::MAX };
    let mut read_side = true;
    for f in &sc.faults {
        match f {
            Fault::EofAt { at } | Fault::ReadErrAt { at, .. } => mode = FaultMode::Exact { at: *at },
            _ => {
                mode = FaultMode::Relaxed;
                read_side = false;
            }
        }
    }
    if sc.faults.len() > 1 || has_unbind {
        mode = FaultMode::Relaxed;
        read_side = false;
    }
    if let (Some(h), true) = (hostile_at, sc.faults.is_empty() && !has_unbind) {
        mode = FaultMode::Exact { at: h };
    }
    let _ = read_side;
    for m in walk_fault(sc, rr, mode) {
        let clause = if m.ctx.contains("error-although") {
            "C04.c"
        } else if m.ctx.contains("not-received") || m.ctx.contains("wrong-value") {
            "C04.b"
        } else {
            "C04.d"
        };
        v.push(Violation::new("C04", clause, format!("{}/{}", m.what, m.ctx), format!("client {} step {}: expected {} got {}", m.client, m.step, clip(&m.expected), m.actual)));
    }
    // (g) a connection failure is noticed in the instant it happens: every call that was waiting then is released
    // in that virtual instant (with its delivered reply or an error), and drive() returns in that instant too -
    // not when some later reply, request or handle drop happens to wake things up.
    {
        // instant of the failure: a read-side cut becomes visible when everything before it has been delivered;
        // write-side faults and hostile frames fire when first met
        let mut t_fail: Option<u64> = None;
        for f in &sc.faults {
            match f {
                Fault::EofAt { at } | Fault::ReadErrAt { at, .. } => {
                    let total = rr.s2c.len();
                    if *at <= total {
                        t_fail = if *at == 0 {
                            Some(0)
                        } else {
                            rr.hist.iter().find_map(|e| match &e.kind {
                                EvKind::NetDeliver { upto } if *upto >= *at => Some(e.t_ms),
                                _ => None,
                            })
                        };
                    }
                }
                _ => {}
            }
        }
        if t_fail.is_none() && sc.faults.len() == 1 {
            t_fail = rr.hist.iter().find_map(|e| match &e.kind {
                EvKind::Fault { what, .. } if what == "write_err" || what == "flush_err" || what == "write_after_close" => Some(e.t_ms),
                _ => None,
            });
            // a close by the server is visible to the client when the end of the stream has been delivered
            // (after whatever was still in transit) - or earlier, when a write fails
            if let Some(closed_at) = rr.hist.iter().find_map(|e| match &e.kind {
                EvKind::SrvClosed { at } => Some((*at, e.t_ms)),
                _ => None,
            }) {
                let (off, t_close) = closed_at;
                let t_eof = rr
                    .hist
                    .iter()
                    .find_map(|e| match &e.kind {
                        EvKind::NetDeliver { upto } if *upto >= off && e.t_ms >= t_close => Some(e.t_ms),
                        _ => None,
                    })
                    .or_else(|| {
                        // everything had been delivered before the close
                        let delivered_before = rr.hist.iter().filter_map(|e| match &e.kind {
                            EvKind::NetDeliver { upto } if e.t_ms <= t_close => Some(*upto),
                            _ => None,
                        }).max().unwrap_or(0);
                        if delivered_before >= off { Some(t_close) } else { None }
                    });
                t_fail = match (t_fail, t_eof) {
                    (Some(a), Some(b)) => Some(a.min(b)),
                    (a, b) => a.or(b),
                };
            }
        }
        if t_fail.is_none() && sc.faults.is_empty() && !has_unbind {
            if let Some(he) = hostile_end {
                // the undecodable frames used here are complete frames: they are rejected once their last byte is there
                t_fail = rr.hist.iter().find_map(|e| match &e.kind {
                    EvKind::NetDeliver { upto } if *upto >= he => Some(e.t_ms),
                    _ => None,
                });
            }
        }
        if let Some(tf) = t_fail {
            let invs = invokes_by_step(&rr.hist);
            let rets = returns_by_step(&rr.hist);
            for ((c, ix), (ti, _)) in &invs {
                if *ti <= tf {
                    if let Some((ret, _, tr, _)) = rets.get(&(*c, *ix)) {
                        if *tr > tf && !matches!(ret, Ret::Skipped) {
                            let what = sc.clients.get(*c).and_then(|cs| cs.steps.get(*ix)).map(lifecycle).unwrap_or("call");
                            v.push(Violation::new("C04", "C04.g", format!("{what}/released-late-after-the-connection-failed"), format!("client {c} step {ix} was waiting when the connection failed at t={tf}ms but returned only at t={tr}ms: {}", clip(&format!("{:?}", ret)))));
                        }
                    }
                }
            }
            match rr.hist.iter().find_map(|e| if let EvKind::DriverExit { .. } = &e.kind { Some(e.t_ms) } else { None }) {
                Some(tx) if tx > tf => v.push(Violation::new("C04", "C04.g", "drive-returns-late-after-the-connection-failed", format!("the connection failed at t={tf}ms; drive() returned at t={tx}ms"))),
                _ => {}
            }
        }
    }
    // (e) operations invoked after the driver returned fail at once
    let exit_seq = rr.hist.iter().find_map(|e| if let EvKind::DriverExit { .. } = &e.kind { Some(e.seq) } else { None });
    let rets = returns_by_step(&rr.hist);
    if let Some(xs) = exit_seq {
        for e in &rr.hist {
            if let EvKind::Invoke { client, step, what, .. } = &e.kind {
                if e.seq > xs && (what.starts_with('"') || what.starts_with("open")) {
                    match rets.get(&(*client, *step)) {
                        Some((Ret::Err(_), _, t, _)) => {
                            if *t != e.t_ms {
                                v.push(Violation::new("C04", "C04.e", "late-operation-fails-late", format!("operation invoked at t={}ms after the driver had returned failed only at t={}ms", e.t_ms, t)));
                            }
                        }
                        Some((other, ..)) => v.push(Violation::new("C04", "C04.e", "late-operation-does-not-fail", format!("operation invoked after the driver had returned gave {}", clip(&format!("{:?}", other))))),
                        None => {}
                    }
                }
            }
        }
    }
    // (f) unbind / last drop
    let unbind_ret = {
        let mut r = None;
        for (c, cs) in sc.clients.iter().enumerate() {
            for (ix, st) in cs.steps.iter().enumerate() {
                if matches!(st, Step::Op { op: OpSpec::Unbind, .. }) {
                    if let Some((Ret::Unit, _, t, seq)) = rets.get(&(c, ix)) {
                        r = Some((*t, *seq));
                    }
                }
            }
        }
        r
    };
    if let Some((_, useq)) = unbind_ret {
        let srv_unbind = rr.hist.iter().find_map(|e| match &e.kind {
            EvKind::SrvRecv { kind, strict, .. } if kind == "unbind" => Some((e.seq, strict.clone())),
            _ => None,
        });
        let write_faulted = sc.faults.iter().any(|f| matches!(f, Fault::WriteErrAt { .. } | Fault::ServerCloseAfter { .. } | Fault::FlushErr { .. }));
        match srv_unbind {
            None => {
                if !write_faulted {
                    v.push(Violation::new("C04", "C04.f", "unbind-ok-but-no-unbind-request", "unbind() returned Ok but the server never read an UnbindRequest"));
                }
            }
            Some((_, strict)) => {
                if !strict.is_empty() {
                    v.push(Violation::new("C04", "C04.f", "unbind-request-malformed", format!("{:?}", strict)));
                }
            }
        }
        let shut = rr.hist.iter().any(|e| matches!(e.kind, EvKind::SrvSawShutdown | EvKind::SrvSawClose));
        if !shut {
            v.push(Violation::new("C04", "C04.f", "unbind-does-not-close-transport", "after a successful unbind() the server never observed shutdown or close of the client's side"));
        }
        // later calls on any handle fail at once
        for e in &rr.hist {
            if let EvKind::Invoke { client, step, what, .. } = &e.kind {
                if e.seq > useq && (what.starts_with('"') || what.starts_with("open")) {
                    match rets.get(&(*client, *step)) {
                        Some((Ret::Err(_), _, t, _)) => {
                            if *t != e.t_ms {
                                v.push(Violation::new("C04", "C04.f", "operation-after-unbind-fails-late", format!("invoked at t={}ms, failed at t={}ms", e.t_ms, t)));
                            }
                        }
                        Some((other, ..)) => v.push(Violation::new("C04", "C04.f", "operation-after-unbind-does-not-fail", format!("operation invoked after unbind() had returned gave {}", clip(&format!("{:?}", other))))),
                        None => {}
                    }
                }
            }
        }
    }
    // last handle dropped => transport closed, drive() returns; never closed while a handle or stream lives
    let dropped_seq = rr.hist.iter().find_map(|e| if let EvKind::TransportDropped = &e.kind { Some(e.seq) } else { None });
    let last_client_done = rr.hist.iter().filter_map(|e| if let EvKind::ClientDone { .. } = &e.kind { Some(e.seq) } else { None }).max();
    let fault_free = sc.faults.is_empty() && hostile_at.is_none() && !has_unbind;
    match (dropped_seq, last_client_done) {
        (None, _) => v.push(Violation::new("C04", "C04.f", "transport-never-closed", "all handles and streams were dropped but the transport was not closed")),
        (Some(d), Some(l)) => {
            if fault_free && d < l {
                v.push(Violation::new("C04", "C04.f", "transport-closed-while-handles-live", "the client closed the transport although a handle or stream was still alive and nothing had failed"));
            }
        }
        _ => {}
    }
    if fault_free {
        match rr.hist.iter().find_map(|e| if let EvKind::DriverExit { ok, err } = &e.kind { Some((*ok, err.clone())) } else { None }) {
            Some((true, _)) => {}
            Some((false, err)) => v.push(Violation::new("C04", "C04.f", "drive-errs-on-clean-close", format!("drive() returned {err} after the last handle was dropped"))),
            None => {}
        }
    }
    v
}

/// C06: framing. Family FRAME (fault-free): same values under every partition, nothing returned
/// before its last byte was delivered.
pub fn check_c06(sc: &Scenario, rr: &RunResult) -> Vec<Violation> {
    let mut v = check_clean_run("C06", rr);
    let dead = dead_clients(&rr.hist);
    for m in walk_plain(sc, &rr.hist, &WalkOpts { strict_stream: false }) {
        if m.missing && (dead.contains(&m.client) || rr.verdict != crate::exec::Verdict::Done) {
            continue;
        }
        v.push(Violation::new(
            "C06",
            "C06.a",
            format!("{}/{}", m.what, if m.missing { "no-return" } else if m.foreign { "foreign-content" } else { "wrong-value" }),
            format!("client {} step {}: expected {} got {}", m.client, m.step, clip(&m.expected), clip(&m.actual)),
        ));
    }
    if let Some(e) = rr.hist.iter().find(|e| matches!(&e.kind, EvKind::DriverExit { ok: false, .. })) {
        v.push(Violation::new("C06", "C06.c", "driver-error-on-wellformed-stream", format!("{:?}", e.kind)));
    }
    // (b) no return before the delivery of the last byte of the message it carries
    let ems = emission_ends(&rr.hist);
    let deliver_seq = |end: usize| -> Option<u64> { rr.hist.iter().find_map(|e| if let EvKind::NetDeliver { upto } = &e.kind { if *upto >= end { Some(e.seq) } else { None } } else { None }) };
    let rets = returns_by_step(&rr.hist);
    for (c, cs) in sc.clients.iter().enumerate() {
        let mut streams: BTreeMap<usize, Option<(StreamModel, String)>> = BTreeMap::new();
        for (ix, step) in cs.steps.iter().enumerate() {
            let Some((ret, _, _, rseq)) = rets.get(&(c, ix)) else { continue };
            let label = match step {
                Step::Op { token, op, .. } => match (op, ret) {
                    (_, Ret::Err(_)) | (OpSpec::Abandon(_), _) | (OpSpec::Unbind, _) => None,
                    (OpSpec::Search(_), _) => Some(format!("{token}:done")),
                    _ => Some(format!("{token}:reply")),
                },
                Step::Open { token, slot, adapter, mods, .. } => {
                    let m = sc.plan.by_token.get(token).and_then(|p| StreamModel::open(p, *adapter, mods.timeout_ms));
                    streams.insert(*slot, m.map(|m| (m, token.clone())));
                    None
                }
                Step::Next { slot, .. } => match streams.get_mut(slot) {
                    Some(Some((m, tok))) if m.state == model::SState::Active && !m.would_block() => {
                        let _ = m.next();
                        match (m.last_consumed, ret) {
                            (_, Ret::Err(_)) | (_, Ret::Skipped) => None,
                            (Some(i), _) => {
                                let n = match sc.plan.by_token.get(tok.as_str()) {
                                    Some(ReplyPlan::Items { items, .. }) => items.len(),
                                    _ => 0,
                                };
                                Some(if i >= n { format!("{tok}:done") } else { format!("{tok}:item{i}") })
                            }
                            _ => None,
                        }
                    }
                    _ => None,
                },
                _ => None,
            };
            if let Some(l) = label {
                if let Some((_, end)) = ems.get(&l) {
                    match deliver_seq(*end) {
                        Some(ds) if ds < *rseq => {}
                        _ => v.push(Violation::new("C06", "C06.b", format!("{}/returned-before-last-byte", lifecycle(step)), format!("client {c} step {ix} returned the message {l} before its last byte (offset {end}) had been delivered"))),
                    }
                }
            }
        }
    }
    v
}

// ---------------------------------------------------------------------------------------------
// C02: request PDUs and one-shot modifiers
// ---------------------------------------------------------------------------------------------

/// Walks every client with the modifier model and compares each request the server decoded
/// with the request model built from the call arguments.
pub fn check_c02(sc: &Scenario, rr: &RunResult) -> Vec<Violation> {
    use crate::model::{req_ctrls_expect, req_expect, ModState, ReqExpect};
    let mut v = check_clean_run("C02", rr);
    if !v.is_empty() {
        return v;
    }
    // requests by token, in arrival order
    let mut recv: BTreeMap<String, Vec<(usize, i64, Vec<String>)>> = BTreeMap::new();
    for e in &rr.hist {
        if let EvKind::SrvRecv { arrival, id, token, strict, .. } = &e.kind {
            recv.entry(token.clone()).or_default().push((*arrival, *id, strict.clone()));
        }
    }
    for e in &rr.hist {
        if let EvKind::SrvUndecodable { why, .. } = &e.kind {
            v.push(Violation::new("C02", "C02.wellformed", "request-not-decodable", format!("the server could not decode what the client wrote: {why}")));
        }
    }
    let rets = returns_by_step(&rr.hist);
    let invs = invokes_by_step(&rr.hist);
    let mut matched_arrivals: std::collections::BTreeSet<usize> = Default::default();
    for (c, cs) in sc.clients.iter().enumerate() {
        let mut ms = ModState::default();
        let mut dropped = false;
        let mut uncertain_mods = false;
        for (ix, step) in cs.steps.iter().enumerate() {
            let (token, op_kind_s, op_for_model, step_mods, adapter): (&String, &str, OpSpec, &crate::scenario::Mods, Option<crate::scenario::Adapter>) = match step {
                Step::DropHandle => {
                    dropped = true;
                    continue;
                }
                Step::SetMods { mods } => {
                    ms.set(mods);
                    continue;
                }
                Step::Op { token, op, mods, .. } => (token, crate::client::op_kind(op), op.clone(), mods, None),
                Step::Open { token, search, mods, adapter, .. } => (token, "search", OpSpec::Search(search.clone()), mods, Some(*adapter)),
                _ => continue,
            };
            if dropped {
                continue;
            }
            ms.set(step_mods);
            let eff = ms.take();
            if matches!(adapter, Some(crate::scenario::Adapter::Paged(_)) | Some(crate::scenario::Adapter::EntriesOnlyPaged(_)) | Some(crate::scenario::Adapter::PagedEntriesOnly(_))) {
                continue; // paged searches rewrite controls: C16
            }
            let Some((ret, last_id, ..)) = rets.get(&(c, ix)) else { continue };
            if **ret == Ret::Cancelled {
                // a call dropped before or while it ran: whether it consumed its modifiers is not defined
                uncertain_mods = true;
                continue;
            }
            let skip_mods = std::mem::replace(&mut uncertain_mods, false);
            let exp = req_expect(&op_for_model, eff.opts.as_ref(), |s| s.filter.clone());
            // by token; requests without a token of their own (abandon, unbind, SASL bind) by the call's message ID
            // (IDs can recur within a run: only a request that arrived while the call was in progress counts)
            let inv_seq = invs.get(&(c, ix)).map(|x| x.1).unwrap_or(0);
            let by_id: Option<(usize, i64, Vec<String>)> = if *last_id != 0 {
                rr.hist.iter().find_map(|e| match &e.kind {
                    EvKind::SrvRecv { arrival, id, strict, kind, .. } if *id == *last_id as i64 && e.seq > inv_seq && kind == op_kind_s => Some((*arrival, *id, strict.clone())),
                    _ => None,
                })
            } else {
                None
            };
            // abandon requests carry no token and their message IDs may recur: match them by what they name
            let by_target: Option<(usize, i64, Vec<String>)> = if let OpSpec::Abandon(r) = &op_for_model {
                let target = match r {
                    crate::scenario::IdRef::Raw(x) => *x as i64,
                    crate::scenario::IdRef::Token(t) => recv.get(t).and_then(|v| v.first()).map(|x| x.1).unwrap_or(-1),
                };
                rr.requests.iter().enumerate().find_map(|(a, q)| match &q.op {
                    crate::msg::ReqOp::Abandon { id } if *id == target && !matched_arrivals.contains(&a) && q.id == *last_id as i64 => {
                        let strict = rr.hist.iter().find_map(|e| match &e.kind {
                            EvKind::SrvRecv { arrival, strict, .. } if *arrival == a => Some(strict.clone()),
                            _ => None,
                        });
                        Some((a, q.id, strict.unwrap_or_default()))
                    }
                    _ => None,
                })
            } else {
                None
            };
            let by_id = if matches!(op_for_model, OpSpec::Abandon(_)) { by_target.or(by_id) } else { by_id };
            let got = recv.get(token).and_then(|v| v.first()).or(by_id.as_ref());
            match exp {
                ReqExpect::Refused(class) => {
                    let ok = match ret {
                        Ret::Err(crate::world::ErrC::AddNoValues) => class == "AddNoValues",
                        Ret::Err(crate::world::ErrC::FilterParsing) => class == "FilterParsing",
                        _ => false,
                    };
                    if !ok {
                        v.push(Violation::new("C02", "C02.refusal", format!("{op_kind_s}/not-refused-as-{class}"), format!("client {c} step {ix}: expected refusal {class}, got {}", clip(&format!("{:?}", ret)))));
                    }
                }
                ReqExpect::Sent(mut want) => {
                    let Some((arrival, id, strict)) = got else {
                        v.push(Violation::new("C02", "C02.sent", format!("{op_kind_s}/request-never-arrived"), format!("client {c} step {ix} ({token}): no request with this token reached the server; call returned {}", clip(&format!("{:?}", ret)))));
                        continue;
                    };
                    matched_arrivals.insert(*arrival);
                    let req = &rr.requests[*arrival];
                    for s in strict {
                        v.push(Violation::new("C02", "C02.wellformed", format!("{op_kind_s}/{}", trunc(s, 50)), format!("client {c} step {ix}: strict decoder: {s}")));
                    }
                    if let (crate::msg::ReqOp::Abandon { id: want_id }, OpSpec::Abandon(r)) = (&mut want, &op_for_model) {
                        *want_id = match r {
                            crate::scenario::IdRef::Raw(x) => *x as i64,
                            crate::scenario::IdRef::Token(t) => recv.get(t).and_then(|v| v.first()).map(|x| x.1).unwrap_or(-1),
                        };
                    }
                    if skip_mods {
                        // compare the operation without the parts modifiers can touch
                        if let (crate::msg::ReqOp::Search { deref, size, time, types_only, .. }, crate::msg::ReqOp::Search { deref: d2, size: s2, time: t2, types_only: y2, .. }) = (&req.op, &mut want) {
                            *d2 = *deref;
                            *s2 = *size;
                            *t2 = *time;
                            *y2 = *types_only;
                        }
                    }
                    if req.op != want {
                        let what = diff_req(&req.op, &want);
                        v.push(Violation::new("C02", "C02.op", format!("{op_kind_s}/{what}"), format!("client {c} step {ix}: wire {} model {}", clip(&format!("{:?}", req.op)), clip(&format!("{:?}", want)))));
                    }
                    let want_c = req_ctrls_expect(&eff.controls);
                    if req.ctrls != want_c && !skip_mods {
                        let leak = want_c.is_none() && req.ctrls.is_some();
                        v.push(Violation::new(
                            "C02",
                            if leak { "C02.modifiers" } else { "C02.controls" },
                            format!("{op_kind_s}/{}", if leak { "controls-from-an-earlier-call" } else if req.ctrls.is_none() { "controls-lost" } else { "controls-differ" }),
                            format!("client {c} step {ix}: wire {} model {}", clip(&format!("{:?}", req.ctrls)), clip(&format!("{:?}", want_c))),
                        ));
                    }
                    if *last_id != 0 && *id != *last_id as i64 {
                        v.push(Violation::new("C02", "C02.msgid", format!("{op_kind_s}/last_id-differs-from-wire-id"), format!("client {c} step {ix}: wire ID {id}, last_id() {last_id}")));
                    }
                    // timeout part of the modifier model: without an effective timeout the call may not time out
                    if eff.timeout_ms.is_none() && !skip_mods && matches!(ret, Ret::Err(crate::world::ErrC::Timeout)) {
                        v.push(Violation::new("C02", "C02.modifiers", format!("{op_kind_s}/timeout-from-an-earlier-call"), format!("client {c} step {ix} timed out although no timeout was set for it")));
                    }
                    if let (Some(_), Some(ReplyPlan::Silent)) = (eff.timeout_ms, sc.plan.by_token.get(token)) {
                        if !matches!(ret, Ret::Err(crate::world::ErrC::Timeout)) {
                            v.push(Violation::new("C02", "C02.modifiers", format!("{op_kind_s}/timeout-lost"), format!("client {c} step {ix}: a timeout was set and the server stayed silent, but the call returned {}", clip(&format!("{:?}", ret)))));
                        }
                    }
                }
            }
        }
    }
    v
}

fn diff_req(a: &crate::msg::ReqOp, b: &crate::msg::ReqOp) -> String {
    use crate::msg::ReqOp::*;
    match (a, b) {
        (Search { base: b1, scope: s1, deref: d1, size: z1, time: t1, types_only: y1, filter: f1, attrs: a1 }, Search { base: b2, scope: s2, deref: d2, size: z2, time: t2, types_only: y2, filter: f2, attrs: a2 }) => {
            let mut parts = vec![];
            if b1 != b2 {
                parts.push("base");
            }
            if s1 != s2 {
                parts.push("scope");
            }
            if d1 != d2 {
                parts.push("deref");
            }
            if z1 != z2 {
                parts.push("sizelimit");
            }
            if t1 != t2 {
                parts.push("timelimit");
            }
            if y1 != y2 {
                parts.push("typesonly");
            }
            if f1 != f2 {
                parts.push("filter");
            }
            if a1 != a2 {
                parts.push("attrs");
            }
            if parts.iter().all(|p| matches!(*p, "deref" | "sizelimit" | "timelimit" | "typesonly")) {
                "search-options-differ".to_string()
            } else {
                format!("search-differs-in-{}", parts.iter().filter(|p| !matches!(**p, "deref" | "sizelimit" | "timelimit" | "typesonly")).cloned().collect::<Vec<_>>().join("+"))
            }
        }
        _ if a.kind() != b.kind() => format!("wrong-operation-{}-for-{}", a.kind(), b.kind()),
        _ => "fields-differ".to_string(),
    }
}

// ---------------------------------------------------------------------------------------------
// C03: results and helper classification
// ---------------------------------------------------------------------------------------------

pub fn check_c03(sc: &Scenario, rr: &RunResult) -> Vec<Violation> {
    let mut v = check_clean_run("C03", rr);
    if !v.is_empty() {
        return v;
    }
    // values: timing-aware walk (SEQ has timeouts with silent servers only)
    for m in walk_timed(sc, rr) {
        if m.kind == "wrong-time" {
            continue;
        }
        v.push(Violation::new("C03", "C03.value", format!("{}/{}", m.what, m.kind), format!("client {} step {}: {}", m.client, m.step, m.detail)));
    }
    // helper table
    for e in &rr.hist {
        if let EvKind::Helpers { client, step, rc, success, non_error, equal } = &e.kind {
            // a code the server sent that no u32 holds is none of the documented success codes
            let sent_wide = sc.clients.get(*client).and_then(|cs| cs.steps.get(*step)).and_then(|st| match st {
                Step::Op { token, .. } => sc.plan.by_token.get(token),
                _ => None,
            }).and_then(|p| match p {
                ReplyPlan::Single { res, .. } => res.rc_wide.or(res.rc_octets.as_ref().map(|_| u64::MAX)),
                ReplyPlan::Items { done: Some(d), .. } => d.res.rc_wide.or(d.res.rc_octets.as_ref().map(|_| u64::MAX)),
                _ => None,
            }).filter(|w| *w > u32::MAX as u64);
            if let Some(w) = sent_wide {
                if *success || *non_error || matches!(equal, Some(Some(_))) {
                    v.push(Violation::new("C03", "C03.helpers", "code-beyond-32-bits-reads-as-success", format!("client {client} step {step}: the server sent result code {w}; the caller saw rc={rc}, success()={success}, non_error()={non_error}, equal()={:?}", equal)));
                }
                continue;
            }
            let is_cmp = equal.is_some();
            let want_non_error = if is_cmp { *rc == 5 || *rc == 6 || *rc == 10 } else { *rc == 0 || *rc == 10 };
            if !is_cmp && *success != (*rc == 0) {
                v.push(Violation::new("C03", "C03.helpers", "success()", format!("client {client} step {step}: rc={rc} success()={success}")));
            }
            if *non_error != want_non_error {
                v.push(Violation::new("C03", "C03.helpers", if is_cmp { "compare.non_error()" } else { "non_error()" }, format!("client {client} step {step}: rc={rc} non_error()={non_error}")));
            }
            if let Some(eq) = equal {
                let want = match rc {
                    5 => Some(false),
                    6 => Some(true),
                    _ => None,
                };
                if *eq != want {
                    v.push(Violation::new("C03", "C03.helpers", "equal()", format!("client {client} step {step}: rc={rc} equal()={:?}", eq)));
                }
            }
        }
    }
    v
}

pub fn check_c03_mux(sc: &Scenario, rr: &RunResult) -> Vec<Violation> {
    check_c01(sc, rr)
        .into_iter()
        .map(|v| Violation::new("C03", &v.clause.replace("C01", "C03.mux"), v.signature, v.detail))
        .collect()
}

// ---------------------------------------------------------------------------------------------
// C16: PagedResults adapter (family PAGED)
// ---------------------------------------------------------------------------------------------

pub fn check_c16(sc: &Scenario, rr: &RunResult) -> Vec<Violation> {
    use crate::model::{req_ctrls_expect, req_expect, ReqExpect};
    const PAGED: &[u8] = b"1.2.840.113556.1.4.319";
    let mut v = check_clean_run("C16", rr);
    if !v.is_empty() {
        return v;
    }
    let Some(pm) = &sc.plan.paging else { return v };
    let rets = returns_by_step(&rr.hist);
    // cookies returned by the server, per token, in order
    let mut cookies: BTreeMap<String, Vec<String>> = BTreeMap::new();
    for e in &rr.hist {
        if let EvKind::Note(n) = &e.kind {
            if let Some(rest) = n.strip_prefix("page-cookie ") {
                if let Some((tok, ck)) = rest.split_once(' ') {
                    cookies.entry(tok.to_string()).or_default().push(ck.to_string());
                }
            }
        }
    }
    for (c, cs) in sc.clients.iter().enumerate() {
        for (ix, step) in cs.steps.iter().enumerate() {
            let Step::Open { token, slot, search, adapter, mods } = step else { continue };
            let size = match adapter {
                crate::scenario::Adapter::Paged(n) | crate::scenario::Adapter::EntriesOnlyPaged(n) | crate::scenario::Adapter::PagedEntriesOnly(n) => *n,
                _ => continue,
            };
            let Some((open_ret, ..)) = rets.get(&(c, ix)) else { continue };
            let caller_has_paging = mods.controls.as_ref().map_or(false, |cs| cs.iter().any(|c| c.oid == PAGED));
            let reqs: Vec<&crate::msg::Req> = rr.requests.iter().filter(|q| matches!(&q.op, crate::msg::ReqOp::Search { base, .. } if base == token.as_bytes())).collect();
            if caller_has_paging {
                // (e)
                if !matches!(open_ret, Ret::Err(_)) {
                    v.push(Violation::new("C16", "C16.e", "caller-paging-control-accepted", format!("client {c} step {ix}: the search started although the caller supplied a paging control: {:?}", open_ret)));
                }
                if !reqs.is_empty() {
                    v.push(Violation::new("C16", "C16.e", "caller-paging-control-sent", format!("client {c} step {ix}: {} request(s) were sent", reqs.len())));
                }
                continue;
            }
            if **open_ret != Ret::Opened {
                v.push(Violation::new("C16", "C16.a", "open-failed", format!("client {c} step {ix}: {:?}", open_ret)));
                continue;
            }
            // (b)(c) request sequence
            let want_op = match req_expect(&OpSpec::Search(search.clone()), mods.opts.as_ref(), |s| s.filter.clone()) {
                ReqExpect::Sent(o) => o,
                _ => continue,
            };
            let want_other = req_ctrls_expect(&mods.controls).unwrap_or_default();
            let cks = cookies.get(token).cloned().unwrap_or_default();
            for (i, q) in reqs.iter().enumerate() {
                if q.op != want_op {
                    v.push(Violation::new("C16", "C16.b", format!("request-{}-differs", if i == 0 { "first" } else { "follow-up" }), format!("client {c} {token} request {i}: wire {} model {}", clip(&format!("{:?}", q.op)), clip(&format!("{:?}", want_op)))));
                }
                let all = q.ctrls.clone().unwrap_or_default();
                let others: Vec<crate::msg::Ctl> = all.iter().filter(|c| c.oid != PAGED).cloned().collect();
                let pcs: Vec<&crate::msg::Ctl> = all.iter().filter(|c| c.oid == PAGED).collect();
                if others != want_other {
                    v.push(Violation::new("C16", "C16.b", format!("other-controls-differ-on-{}", if i == 0 { "first" } else { "follow-up" }), format!("client {c} {token} request {i}: wire {} model {}", clip(&format!("{:?}", others)), clip(&format!("{:?}", want_other)))));
                }
                if pcs.len() != 1 {
                    v.push(Violation::new("C16", "C16.b", "paging-control-count", format!("client {c} {token} request {i} carries {} paging controls", pcs.len())));
                    continue;
                }
                match pcs[0].val.as_ref().and_then(|x| crate::server::parse_paged_value(x)) {
                    None => v.push(Violation::new("C16", "C16.b", "paging-control-value-malformed", format!("client {c} {token} request {i}"))),
                    Some((sz, ck)) => {
                        if sz != size as i64 {
                            v.push(Violation::new("C16", "C16.b", "page-size-differs", format!("client {c} {token} request {i}: size {sz}, requested {size}")));
                        }
                        let want_ck = if i == 0 { String::new() } else { cks.get(i - 1).cloned().unwrap_or_else(|| "?".into()) };
                        let want_ck = if want_ck == "-" { String::new() } else { want_ck };
                        if crate::server::hex(&ck) != want_ck {
                            v.push(Violation::new("C16", "C16.b", if i == 0 { "first-cookie-not-empty" } else { "cookie-not-forwarded" }, format!("client {c} {token} request {i}: cookie {} expected {}", crate::server::hex(&ck), want_ck)));
                        }
                        if i > 0 && want_ck.is_empty() {
                            v.push(Violation::new("C16", "C16.c", "request-after-empty-cookie", format!("client {c} {token} request {i} follows a response with an empty cookie (or without paging control)")));
                        }
                    }
                }
            }
            // (a)(d) values
            let mut k = 0usize; // next entry index
            let mut done = false;
            let mut closed = false;
            for (off, later) in cs.steps[ix + 1..].iter().enumerate() {
                let six = ix + 1 + off;
                match later {
                    Step::Open { slot: s2, .. } if s2 == slot => break,
                    Step::Next { slot: s2, .. } if s2 == slot => {
                        let Some((ret, ..)) = rets.get(&(c, six)) else { continue };
                        if **ret == Ret::Skipped || done || closed {
                            continue;
                        }
                        let want = if k < pm.n {
                            let e = crate::msg::RespOp::Entry { dn: format!("cn=e{k},{token}"), attrs: vec![("cn".into(), vec![format!("e{k}").into_bytes()])] };
                            Ret::Item(Some(model::item_expect(&e, &None)))
                        } else {
                            Ret::Item(None)
                        };
                        if **ret != want {
                            let sig = match ret {
                                Ret::Item(Some(_)) if k >= pm.n => "entry-after-the-end",
                                Ret::Item(Some(_)) => "wrong-entry (lost, duplicated or out of order)",
                                Ret::Item(None) => "end-before-all-entries",
                                _ => "error",
                            };
                            v.push(Violation::new("C16", "C16.a", sig, format!("client {c} step {six} ({token}, entry index {k} of {}): expected {} got {}", pm.n, clip(&format!("{:?}", want)), clip(&format!("{:?}", ret)))));
                            break;
                        }
                        if k < pm.n {
                            k += 1;
                        } else {
                            done = true;
                        }
                    }
                    Step::Finish { slot: s2 } if s2 == slot => {
                        let Some((ret, ..)) = rets.get(&(c, six)) else { continue };
                        let want = if closed {
                            model::synthetic(80)
                        } else if done {
                            let mut ctrls: Vec<crate::msg::Ctl> = pm.other_ctrls.clone();
                            let _ = &mut ctrls;
                            crate::world::ResC {
                                rc: pm.final_rc,
                                matched: String::new(),
                                text: format!("{token}:page-done@{}", pm.n),
                                refs: vec![],
                                ctrls: ctrls.iter().map(model::ctl_expect).collect(),
                            }
                        } else {
                            model::synthetic(88)
                        };
                        closed = true;
                        if !model::fin_matches(ret, &Ret::Fin(want.clone())) {
                            let has_paging = matches!(ret, Ret::Fin(r) if r.ctrls.iter().any(|c| c.oid.as_bytes() == PAGED));
                            v.push(Violation::new("C16", "C16.d", if has_paging { "final-result-carries-paging-control" } else { "final-result-differs" }, format!("client {c} step {six}: expected {:?} got {}", want, clip(&format!("{:?}", ret)))));
                        }
                    }
                    _ => {}
                }
            }
        }
    }
    v
}

// ---------------------------------------------------------------------------------------------
// C14: synchronous facade vs. asynchronous API (differential)
// ---------------------------------------------------------------------------------------------

pub fn check_c14(sc: &Scenario, rr: &RunResult) -> Vec<Violation> {
    let mut v = check_clean_run("C14", rr);
    if !v.is_empty() {
        return v;
    }
    let cfg = crate::runner::RunCfg { tokio_seed: sc.knobs.lenform_seed ^ 0x5a5a, ..Default::default() };
    let rs = crate::syncrun::run_sync(sc, &cfg);
    for (actor, msg, file) in panics(&rs.hist) {
        v.push(Violation::new("C14", "C14.panic", format!("sync-panic/{}/{}", short_file(&file), trunc(&msg, 60)), format!("{actor} panicked in the synchronous run: {msg} ({file})")));
    }
    // From the first moment the connection is compromised (unbind, planned disconnect, or the first
    // connection-loss error in either run) the order in which the driver and the caller notice it is a
    // matter of scheduling, which legitimately differs between the two runs: compare strictly before
    // that point, and only the outcome class of the step that meets it.
    let lost = |r: &Ret| matches!(r, Ret::Err(crate::world::ErrC::OpSend | crate::world::ErrC::ResultRecv | crate::world::ErrC::Io(_) | crate::world::ErrC::EndOfStream | crate::world::ErrC::IdScrubSend | crate::world::ErrC::MiscSend));
    let ra = returns_by_step(&rr.hist);
    let rsy = returns_by_step(&rs.hist);
    let steps = &sc.clients[0].steps;
    let mut compromised_at: Option<usize> = None;
    for (ix, st) in steps.iter().enumerate() {
        let hit = matches!(st, Step::Op { op: OpSpec::Unbind, .. })
            || ra.get(&(0, ix)).map_or(false, |x| lost(x.0))
            || rsy.get(&(0, ix)).map_or(false, |x| lost(x.0))
            || match st {
                Step::Op { token, .. } | Step::Open { token, .. } => sc.plan.close_on_arrival.map_or(false, |k| *token == format!("#{k}")),
                _ => false,
            };
        if hit {
            compromised_at = Some(ix);
            break;
        }
    }
    // wire transcript
    let limit_reqs = match compromised_at {
        None => usize::MAX,
        Some(ix) => {
            // number of requests sent by the steps before the compromised one (async run)
            let mut n = 0;
            for (six, st) in steps.iter().enumerate() {
                if six >= ix {
                    break;
                }
                if let Step::Op { token, .. } | Step::Open { token, .. } = st {
                    if rr.hist.iter().any(|e| matches!(&e.kind, EvKind::SrvRecv { token: t, .. } if t == token)) {
                        n += 1;
                    }
                }
            }
            n
        }
    };
    let n = rr.requests.len().max(rs.requests.len()).min(limit_reqs);
    for i in 0..n {
        let a = rr.requests.get(i);
        let s = rs.requests.get(i);
        let same = match (a, s) {
            (Some(a), Some(s)) => a.op == s.op && a.ctrls == s.ctrls && a.id == s.id,
            _ => false,
        };
        if !same {
            let kind = a.or(s).map(|q| q.op.kind()).unwrap_or("?");
            let what = match (a, s) {
                (Some(a), Some(s)) if a.op.kind() != s.op.kind() => "different-operation",
                (Some(a), Some(s)) if a.op != s.op => "different-arguments",
                (Some(a), Some(s)) if a.ctrls != s.ctrls => "different-controls",
                (Some(_), Some(_)) => "different-message-id",
                (Some(_), None) => "missing-in-sync",
                _ => "extra-in-sync",
            };
            v.push(Violation::new("C14", "C14.wire", format!("{kind}/{what}"), format!("request {i}: async {} sync {}", clip(&format!("{:?}", a)), clip(&format!("{:?}", s)))));
            break;
        }
    }
    // values
    for (ix, st) in steps.iter().enumerate() {
        let a = ra.get(&(0, ix));
        let s = rsy.get(&(0, ix));
        let what = lifecycle(st);
        if let Some(k) = compromised_at {
            if ix >= k {
                // Outcome class only, and only where the class cannot depend on who noticed the loss first: single
                // operations and search() either fail (any connection-loss error, or a timeout) in both runs or
                // are refused locally in both; a next() that was waiting when the connection went away fails in both.
                // (Abandon, unbind and streaming_search succeed or fail depending on whether the driver has gone yet.)
                // Once an earlier call has failed with a connection-loss error in BOTH runs, the driver is gone in
                // both: from then on a query that goes through the driver (peer certificate) fails in both.
                let loss_seen_by_both = (0..ix).any(|j| ra.get(&(0, j)).map_or(false, |x| lost(x.0)) && rsy.get(&(0, j)).map_or(false, |x| lost(x.0)));
                let comparable = match st {
                    Step::Op { op, .. } => !matches!(op, OpSpec::Unbind | OpSpec::Abandon(_)),
                    Step::Next { .. } => ix == k,
                    Step::ProbeCert => loss_seen_by_both,
                    _ => false,
                };
                if let (Some(a), Some(s)) = (a, s) {
                    let norm = |r: &Ret| if lost(r) || matches!(r, Ret::Err(crate::world::ErrC::Timeout)) { "failed" } else { ret_class(r) };
                    let (mut ca, mut cs) = (norm(a.0), norm(s.0));
                    if let (Ret::Cert(x), Ret::Cert(y)) = (a.0, s.0) {
                        if x != y {
                            ca = "certificate-query-a";
                            cs = "certificate-query-b";
                        }
                    }
                    if comparable && ca != cs {
                        v.push(Violation::new("C14", "C14.value", format!("{what}/connection-lost/async-{ca}-sync-{cs}"), format!("step {ix}: async {} sync {}", clip(&format!("{:?}", a.0)), clip(&format!("{:?}", s.0)))));
                    }
                    let unbind = matches!(st, Step::Op { op: OpSpec::Unbind, .. });
                    if ix == k && unbind && a.0 != s.0 {
                        v.push(Violation::new("C14", "C14.value", "unbind/result-differs", format!("step {ix}: async {:?} sync {:?}", a.0, s.0)));
                    }
                }
                continue;
            }
        }
        match (a, s) {
            (None, None) => {}
            (Some(a), Some(s)) => {
                if a.0 != s.0 {
                    let akind = ret_class(a.0);
                    let skind = ret_class(s.0);
                    v.push(Violation::new("C14", "C14.value", format!("{what}/async-{akind}-sync-{skind}"), format!("step {ix}: async {} sync {}", clip(&format!("{:?}", a.0)), clip(&format!("{:?}", s.0)))));
                } else if a.2.abs_diff(s.2) > 1 {
                    v.push(Violation::new("C14", "C14.time", format!("{what}/completion-time-differs"), format!("step {ix}: async t={}ms sync t={}ms", a.2, s.2)));
                }
                if a.1 != s.1 && !matches!(st, Step::Finish { .. }) {
                    v.push(Violation::new("C14", "C14.value", format!("{what}/last_id-differs"), format!("step {ix}: async {} sync {}", a.1, s.1)));
                }
            }
            (Some(a), None) => {
                if !matches!(st, Step::State { .. }) && *a.0 != Ret::Skipped {
                    v.push(Violation::new("C14", "C14.value", format!("{what}/no-sync-return"), format!("step {ix}: async {}", clip(&format!("{:?}", a.0)))));
                }
            }
            (None, Some(s)) => {
                if *s.0 != Ret::Skipped {
                    v.push(Violation::new("C14", "C14.value", format!("{what}/no-async-return"), format!("step {ix}: sync {}", clip(&format!("{:?}", s.0)))));
                }
            }
        }
    }
    v
}

fn ret_class(r: &Ret) -> &'static str {
    match r {
        Ret::Err(_) => "error",
        Ret::Item(None) => "end",
        Ret::Item(Some(_)) => "item",
        Ret::Fin(_) => "final",
        Ret::Skipped => "skipped",
        _ => "value",
    }
}

// ---------------------------------------------------------------------------------------------
// C11: hostile bytes (family HOSTILE)
// ---------------------------------------------------------------------------------------------

pub fn check_c11(sc: &Scenario, rr: &RunResult) -> Vec<Violation> {
    let mut v = vec![];
    let Some(h) = &sc.plan.hostile else { return v };
    let class = h.class.split("-depth-").next().unwrap_or(&h.class).to_string();
    let class = if h.nest.is_some() { format!("nesting-depth-{}", h.nest.unwrap().0) } else { class };
    // (a) the driver must not panic
    for (actor, msg, file) in panics(&rr.hist) {
        if actor == "driver" {
            v.push(Violation::new("C11", "C11.a", format!("driver-panic/{}/{}", short_file(&file), trunc(&msg, 50)), format!("hostile item of class {class}: the connection driver panicked: {msg} ({file})")));
        }
    }
    let dead = dead_clients(&rr.hist);
    // (c) no wedge
    match rr.verdict {
        crate::exec::Verdict::Done => {}
        _ => v.push(Violation::new("C11", "C11.c", format!("hang/{class}"), "a call or the driver never completed, even after the server closed the connection")),
    }
    let hostile_range = rr.hist.iter().find_map(|e| match &e.kind {
        EvKind::SrvEmit { label, range, .. } if label == "hostile" => Some(*range),
        _ => None,
    });
    let Some((hs, _he)) = hostile_range else { return v };
    let total = rr.s2c.len();
    // End of the hostile item's outer element as a BER reader sees it (one identifier octet, then the
    // length). None = the item announces more bytes than were ever sent (or its length octets never
    // complete): waiting for them is legitimate.
    let announced_end = {
        let b = &rr.s2c[hs..];
        if b.len() < 2 {
            None
        } else if b[1] < 0x80 {
            Some(hs + 2 + b[1] as usize)
        } else if b[1] == 0x80 {
            Some(hs + 2)
        } else {
            let n = (b[1] & 0x7f) as usize;
            if b.len() < 2 + n {
                None
            } else {
                let mut len: u128 = 0;
                for &x in &b[2..2 + n] {
                    len = (len << 8) | x as u128;
                    if len > (1u128 << 62) {
                        break;
                    }
                }
                if len > (rr.s2c.len() as u128) {
                    None
                } else {
                    Some(hs + 2 + n + len as usize)
                }
            }
        }
    };
    let announced_end = announced_end.filter(|e| *e <= rr.s2c.len());
    // What is left of the item behind its first element (a bit flip in a length octet splits it) starts the next
    // frame as far as a BER reader can tell, and so on: walk the outer headers to the end of everything the server
    // ever sent. If some header on the way announces more than that (or is itself incomplete), waiting is legitimate.
    let frame_end_at = |pos: usize| -> Option<usize> {
        let b = &rr.s2c[pos..];
        if b.len() < 2 {
            return None;
        }
        if b[1] < 0x80 {
            Some(pos + 2 + b[1] as usize)
        } else if b[1] == 0x80 {
            Some(pos + 2)
        } else {
            let n = (b[1] & 0x7f) as usize;
            if b.len() < 2 + n {
                return None;
            }
            let mut len: u128 = 0;
            for &x in &b[2..2 + n] {
                len = (len << 8) | x as u128;
                if len > (1u128 << 62) {
                    return None;
                }
            }
            Some(pos + 2 + n + len as usize)
        }
    };
    let mut exempt = announced_end.is_none();
    if !exempt {
        let mut pos = hs;
        while pos < rr.s2c.len() {
            match frame_end_at(pos) {
                Some(e) if e <= rr.s2c.len() && e > pos => pos = e,
                _ => {
                    exempt = true;
                    break;
                }
            }
        }
    }
    let t_all = rr.hist.iter().filter_map(|e| if let EvKind::NetDeliver { .. } = &e.kind { Some(e.t_ms) } else { None }).max().unwrap_or(0);
    let _ = total;
    if !exempt && v.is_empty() {
        let invs = invokes_by_step(&rr.hist);
        for e in &rr.hist {
            if let EvKind::Return { client, step, ret, .. } = &e.kind {
                if dead.contains(client) || matches!(ret, Ret::Skipped | Ret::State(_) | Ret::Probe { .. }) {
                    continue;
                }
                let ti = invs.get(&(*client, *step)).map(|x| x.0).unwrap_or(e.t_ms);
                if e.t_ms > t_all && e.t_ms > ti {
                    v.push(Violation::new(
                        "C11",
                        "C11.c",
                        format!("wedged-until-the-server-closed/{class}"),
                        format!("client {client} step {step} was released only at t={}ms (everything had been delivered at t={t_all}ms): the frame was neither delivered nor rejected once its announced bytes had arrived", e.t_ms),
                    ));
                    break;
                }
            }
        }
    }
    // (e) with nothing behind the item on the wire: the rejection may not wait for more bytes. The frame is complete
    // when the last byte its outer length announces is delivered; drive() must end in that virtual instant.
    let t_complete = announced_end.and_then(|end| rr.hist.iter().find_map(|e| match &e.kind {
        EvKind::NetDeliver { upto } if *upto >= end => Some(e.t_ms),
        _ => None,
    }));
    // (d) non-envelope input must end the connection with an error - provided somebody was still using
    // the connection when the item arrived (otherwise the driver may legitimately be gone already)
    let hostile_seq = rr.hist.iter().find_map(|e| match &e.kind {
        EvKind::SrvEmit { label, .. } if label == "hostile" => Some(e.seq),
        _ => None,
    });
    let pending_at_hostile = {
        let mut pending = 0i32;
        for e in &rr.hist {
            if Some(e.seq) >= hostile_seq {
                break;
            }
            match &e.kind {
                EvKind::Invoke { .. } => pending += 1,
                EvKind::Return { ret, .. } if !matches!(ret, Ret::Skipped | Ret::State(_) | Ret::Probe { .. }) => pending -= 1,
                _ => {}
            }
        }
        pending > 0
    };
    if h.must_end && v.is_empty() && pending_at_hostile {
        let exit = rr.hist.iter().find_map(|e| if let EvKind::DriverExit { ok, err } = &e.kind { Some((*ok, err.clone(), e.t_ms, e.seq)) } else { None });
        if let (Some((false, _, t, _)), Some(tc), true) = (&exit, t_complete, h.gap_after_ms > 0 && !exempt) {
            if *t > tc {
                v.push(Violation::new(
                    "C11",
                    "C11.c",
                    format!("rejected-only-when-more-bytes-arrived/{class}"),
                    format!("the malformed frame was complete at t={tc}ms with nothing behind it on the wire; the connection ended only at t={t}ms"),
                ));
            }
        }
        match exit {
            Some((false, _, t, xseq)) if t <= t_all => {
                // every call still waiting at that point got an error
                for e in &rr.hist {
                    if let EvKind::Return { client, step, ret, .. } = &e.kind {
                        if e.seq > xseq && !dead.contains(client) {
                            if let Ret::Res(_) | Ret::Cmp(_) | Ret::Exop { .. } | Ret::Search { .. } | Ret::Item(Some(_)) = ret {
                                // a value delivered before the hostile item is fine
                                let _ = step;
                            }
                        }
                    }
                }
            }
            Some((ok, err, t, _)) => v.push(Violation::new(
                "C11",
                "C11.d",
                format!("not-rejected/{class}"),
                format!("input that is not a well-formed LDAPMessage envelope did not end the connection with a decoding error (drive() returned ok={ok} {err} at t={t}ms, delivery complete at t={t_all}ms)"),
            )),
            None => v.push(Violation::new("C11", "C11.d", format!("not-rejected/{class}"), "drive() never returned")),
        }
    }
    v
}

// ---------------------------------------------------------------------------------------------
// C17 / C18: establishment lanes
// ---------------------------------------------------------------------------------------------

fn estab_obs(rr: &RunResult) -> Option<crate::estab::EstabObs> {
    rr.hist.iter().find_map(|e| match &e.kind {
        EvKind::Note(n) => n.strip_prefix("estab ").and_then(|j| serde_json::from_str(j).ok()),
        _ => None,
    })
}

/// URL shape class for signatures.
fn url_shape(c: &crate::estab::EstabCase) -> String {
    use crate::estab::{HostForm, StdKind};
    let mut s = c.scheme.clone();
    if c.scheme == "ldap" || c.scheme == "ldaps" {
        s.push_str(match c.host {
            HostForm::Absent => "/host-absent",
            HostForm::Ip6 => "/ipv6",
            HostForm::Name => "/name",
            HostForm::Ip4 => "/ipv4",
        });
        s.push_str(if c.explicit_port { "/port" } else { "/default-port" });
        if c.starttls {
            s.push_str("/starttls");
        }
    }
    if c.scheme == "ldapi" {
        if c.ldapi_empty {
            s.push_str("/empty-path");
        }
        if c.ldapi_port {
            s.push_str("/with-port");
        }
    }
    match c.std_stream {
        StdKind::None => {}
        StdKind::Tcp => s.push_str("/std-tcp"),
        StdKind::Unix => s.push_str("/std-unix"),
        StdKind::Invalid => s.push_str("/std-invalid"),
    }
    if c.conn_timeout_ms.is_some() {
        s.push_str("/timeout");
    }
    s
}

pub fn check_c18(sc: &Scenario, rr: &RunResult) -> Vec<Violation> {
    use crate::estab::{Peer, StdKind};
    let mut v = vec![];
    let Ok(c) = serde_json::from_str::<crate::estab::EstabCase>(&sc.note) else { return v };
    let Some(o) = estab_obs(rr) else { return v };
    if o.skipped.is_some() {
        return v;
    }
    let shape = url_shape(&c);
    let api = if c.sync_api { "sync" } else { "async" };
    if let Some(p) = o.outcome.strip_prefix("panic:") {
        v.push(Violation::new("C18", "C18.panic", format!("{shape}/panic"), format!("{api} with_settings({:?}) panicked: {p}", o.url)));
        return v;
    }
    let ok = o.outcome == "ok";
    let tcp = c.scheme == "ldap" || c.scheme == "ldaps";
    let needs_tls = tcp && (c.starttls && c.scheme == "ldap" || c.scheme == "ldaps");
    // expectation from the statement
    let mut want_ok: Option<bool> = None; // None = either
    let mut want_reached: Option<Vec<&str>> = None;
    let mut want_timeout = false;
    if c.raw_url.is_some() {
        want_ok = Some(false);
        want_reached = Some(vec![]);
    } else if c.scheme == "ldapi" && c.ldapi_empty && c.ldapi_port {
        // "ldapi://:3" is not a URL at all
        want_ok = Some(false);
        want_reached = Some(vec![]);
    } else if c.scheme == "ldapi" {
        match c.std_stream {
            StdKind::Unix => {
                want_ok = Some(true);
                want_reached = Some(vec![]);
            }
            StdKind::Tcp | StdKind::Invalid => {
                want_ok = Some(false);
                want_reached = Some(vec![]);
            }
            StdKind::None => {
                if c.ldapi_empty || c.ldapi_port || c.peer == Peer::Absent {
                    want_ok = Some(false);
                    want_reached = Some(vec![]);
                } else {
                    want_ok = Some(true);
                    want_reached = Some(vec!["unix"]);
                }
            }
        }
    } else if tcp {
        match c.std_stream {
            StdKind::Unix | StdKind::Invalid => {
                want_ok = Some(false);
                want_reached = Some(vec![]);
            }
            _ => {
                let pre = c.std_stream == StdKind::Tcp;
                let reach: Vec<&str> = if pre || c.peer == Peer::Absent { vec![] } else { vec!["url-endpoint"] };
                want_reached = Some(reach);
                if !pre && c.peer == Peer::Absent {
                    want_ok = Some(false);
                } else if !needs_tls {
                    want_ok = Some(true);
                } else if matches!(c.peer, Peer::Tls { .. }) {
                    // the generator only writes TLS peers in good order with a verifiable (or unverified) certificate
                    want_ok = Some(true);
                    if !o.peer.handshake_completed || o.peer.other_cleartext_pdus > 0 || (c.scheme == "ldaps" && (o.peer.starttls_request_seen || !o.peer.cleartext.is_empty())) || (c.scheme == "ldap" && !o.peer.starttls_request_seen) {
                        v.push(Violation::new(
                            "C18",
                            "C18.tls",
                            format!("{shape}/{}", if c.scheme == "ldaps" { "ldaps-did-not-open-with-tls" } else { "starttls-exchange-missing" }),
                            format!("{api} with_settings({:?}) starttls-flag={}: outcome {}, peer log {:?}", o.url, c.starttls, o.outcome, o.peer),
                        ));
                    }
                } else {
                    want_ok = Some(false);
                    if c.peer == Peer::Stall {
                        want_timeout = true;
                    }
                }
            }
        }
    }
    if let Some(w) = want_ok {
        if ok != w {
            v.push(Violation::new(
                "C18",
                if w { "C18.connect" } else { "C18.reject" },
                format!("{shape}/{}", if w { "failed" } else { "accepted" }),
                format!("{api} with_settings({:?}): expected {}, got {}", o.url, if w { "Ok" } else { "an error" }, o.outcome),
            ));
        }
    }
    if let Some(w) = want_reached {
        let got: Vec<&str> = o.reached.iter().map(|s| s.as_str()).collect();
        if got != w {
            v.push(Violation::new("C18", "C18.endpoint", format!("{shape}/wrong-endpoint"), format!("{api} with_settings({:?}): endpoints reached {:?}, expected {:?} (outcome {})", o.url, got, w, o.outcome)));
        }
    }
    if want_timeout {
        let t = c.conn_timeout_ms.unwrap_or(0);
        if o.outcome != "err:Timeout" {
            v.push(Violation::new("C18", "C18.timeout", format!("{shape}/no-timeout-error"), format!("stalling peer and conn_timeout={t}ms: {}", o.outcome)));
        } else if !c.sync_api && o.t_ms.abs_diff(t) > 1 {
            v.push(Violation::new("C18", "C18.timeout", format!("{shape}/timeout-at-wrong-time"), format!("stalling peer and conn_timeout={t}ms: returned at t={}ms", o.t_ms)));
        }
    }
    v
}

pub fn check_c17(sc: &Scenario, rr: &RunResult) -> Vec<Violation> {
    use crate::estab::{HostForm, Peer, StartTlsResp, TlsBehaviour};
    let mut v = vec![];
    let Ok(c) = serde_json::from_str::<crate::estab::EstabCase>(&sc.note) else { return v };
    let Some(o) = estab_obs(rr) else { return v };
    if o.skipped.is_some() {
        return v;
    }
    let Peer::Tls { starttls, tls, rogue } = &c.peer else { return v };
    let api = if c.sync_api { "sync" } else { "async" };
    let cfg = format!(
        "{}{}/{}{}{}{}{}{}",
        c.scheme,
        if c.scheme == "ldap" { "+starttls" } else { "" },
        if c.trust_ca { "custom-connector" } else { "default-connector" },
        if c.no_tls_verify { "/no-verify" } else { "" },
        if c.host != HostForm::Name { "/wrong-name" } else { "" },
        if c.clone_settings { "/cloned-settings" } else { "" },
        if c.std_stream == crate::estab::StdKind::Unix { "/std-unix" } else { "" },
        if *rogue { "/untrusted-issuer" } else { "" }
    );
    let beh = format!("{:?}/{:?}", starttls, tls).replace(|ch: char| ch.is_ascii_digit(), "").replace("()", "");
    if let Some(p) = o.outcome.strip_prefix("panic:") {
        v.push(Violation::new("C17", "C17.panic", format!("panic/{beh}"), format!("{api} with_settings({:?}) panicked: {p}", o.url)));
        return v;
    }
    let ok = o.outcome == "ok";
    let starttls_scheme = c.scheme == "ldap";
    let good_starttls = !starttls_scheme || matches!(starttls, StartTlsResp::Success | StartTlsResp::SuccessPlusInjected | StartTlsResp::NoticeThenSuccess);
    // the harness CA is trusted by the custom connector and - as this process's system store - by the library's
    // default TLS configuration; the certificate names "localhost" only
    let cert_ok = !*rogue && c.host == HostForm::Name;
    let unix_stream = c.std_stream == crate::estab::StdKind::Unix;
    let must_err = unix_stream || !good_starttls || *tls != TlsBehaviour::Good || (!cert_ok && !c.no_tls_verify);
    let must_ok = !unix_stream && good_starttls && *tls == TlsBehaviour::Good && (cert_ok || (c.no_tls_verify && !c.trust_ca));
    // (a) nothing but the StartTLS request in cleartext
    if o.peer.other_cleartext_pdus > 0 {
        v.push(Violation::new("C17", "C17.a", format!("ldap-pdu-in-cleartext/{cfg}"), format!("{api} {:?}: the server saw {} LDAP PDU(s) in cleartext besides the StartTLS request: {} {:?}", o.url, o.peer.other_cleartext_pdus, o.peer.cleartext, o.peer.notes)));
    }
    if starttls_scheme && o.peer.accepted > 0 && !o.peer.starttls_request_seen && o.peer.cleartext != "no-complete-ldap-message" {
        v.push(Violation::new("C17", "C17.a", format!("first-cleartext-message-not-starttls/{cfg}"), format!("{api} {:?}: {}", o.url, o.peer.cleartext)));
    }
    // (b) a usable handle only after a completed, acceptable handshake
    if ok && !o.peer.handshake_completed {
        v.push(Violation::new("C17", "C17.b", format!("ok-without-handshake/{beh}/{cfg}"), format!("{api} with_settings({:?}) returned Ok but the server never completed a TLS handshake", o.url)));
    }
    if ok && must_err {
        v.push(Violation::new("C17", "C17.b", format!("ok-although-establishment-must-fail/{beh}/{cfg}"), format!("{api} with_settings({:?}) returned Ok (StartTLS response {:?}, TLS {:?}, trust_ca={}, no_tls_verify={}, host {:?})", o.url, starttls, tls, c.trust_ca, c.no_tls_verify, c.host)));
    }
    if !ok && must_ok {
        v.push(Violation::new("C17", "C17.ok", format!("failed-although-everything-is-in-order/{cfg}"), format!("{api} with_settings({:?}): {} (peer notes {:?})", o.url, o.outcome, o.peer.notes)));
    }
    // (c) injected cleartext is never an answer inside the protected session
    if let Some(b) = &o.bind {
        if b.contains("INJECTED") {
            v.push(Violation::new("C17", "C17.c", format!("injected-cleartext-reply-accepted/{cfg}"), format!("{api} {:?}: the bind inside TLS returned the reply that was injected in cleartext after the StartTLS response", o.url)));
        } else if ok && *starttls != StartTlsResp::SuccessPlusInjected && b != "ok:INSIDE-TLS" {
            v.push(Violation::new("C17", "C17.ok", format!("protected-bind-failed/{cfg}"), format!("{api} {:?}: {b}", o.url)));
        } else if ok && *starttls == StartTlsResp::SuccessPlusInjected && b != "timeout" {
            v.push(Violation::new("C17", "C17.c", format!("unanswered-protected-bind-did-not-time-out/{cfg}"), format!("{api} {:?}: {b}", o.url)));
        }
    }
    // timeouts bound the establishment
    if let Some(t) = c.conn_timeout_ms {
        if o.outcome != "err:Timeout" {
            v.push(Violation::new("C17", "C17.timeout", format!("no-timeout-error/{beh}"), format!("silent peer and conn_timeout={t}ms: {}", o.outcome)));
        } else if o.t_ms.abs_diff(t) > 1 {
            v.push(Violation::new("C17", "C17.timeout", format!("timeout-at-wrong-time/{beh}"), format!("silent peer and conn_timeout={t}ms: returned at t={}ms", o.t_ms)));
        }
    }
    v
}

/// C04 on paged searches: a read-side fault at any point; entries delivered before it are returned in
/// order, then the stream fails - it never reports a normal end unless everything arrived.
pub fn check_c04_paged(sc: &Scenario, rr: &RunResult) -> Vec<Violation> {
    use crate::scenario::Fault;
    let mut v = vec![];
    match rr.verdict {
        crate::exec::Verdict::Done => {}
        _ => {
            v.push(Violation::new("C04", "C04.a", "hang/paged", "a call or the driver did not complete before the virtual-time watchdog"));
            return v;
        }
    }
    for (actor, msg, file) in panics(&rr.hist) {
        v.push(Violation::new("C04", "C04.panic", format!("panic/{}/{}", short_file(&file), trunc(&msg, 60)), format!("{actor} panicked: {msg} ({file})")));
    }
    if !v.is_empty() {
        return v;
    }
    let Some(pm) = &sc.plan.paging else { return v };
    let at = sc.faults.iter().find_map(|f| match f {
        Fault::EofAt { at } | Fault::ReadErrAt { at, .. } => Some(*at),
        _ => None,
    });
    let at = at.unwrap_or(usize::MAX);
    let ems = emission_ends(&rr.hist);
    let rets = returns_by_step(&rr.hist);
    for (c, cs) in sc.clients.iter().enumerate() {
        let Some(Step::Open { token, .. }) = cs.steps.first() else { continue };
        match rets.get(&(c, 0)).map(|x| x.0) {
            Some(Ret::Opened) => {}
            Some(Ret::Err(_)) => continue,
            other => {
                v.push(Violation::new("C04", "C04.b", "paged/open", format!("{:?}", other)));
                continue;
            }
        }
        // entries and final result that were fully delivered before the fault
        let mut k = 0;
        while k < pm.n && ems.get(&format!("{token}:page-entry{k}")).map_or(false, |r| r.1 <= at) {
            k += 1;
        }
        let final_arrived = k == pm.n && ems.get(&format!("{token}:page-done@{}", pm.n)).map_or(false, |r| r.1 <= at) && {
            // with an extra empty last page the final result is the second message of that name
            let n = rr.hist.iter().filter(|e| matches!(&e.kind, EvKind::SrvEmit { label, .. } if *label == format!("{token}:page-done@{}", pm.n))).count();
            !pm.extra_empty_last_page || n >= 2
        };
        let mut i = 0usize;
        let mut ended = false;
        let mut done = false;
        for (six, st) in cs.steps.iter().enumerate().skip(1) {
            let Some((ret, ..)) = rets.get(&(c, six)) else { continue };
            match st {
                Step::Next { .. } => {
                    if ended || **ret == Ret::Skipped {
                        continue;
                    }
                    if i < k {
                        let e = crate::msg::RespOp::Entry { dn: format!("cn=e{i},{token}"), attrs: vec![("cn".into(), vec![format!("e{i}").into_bytes()])] };
                        let want = Ret::Item(Some(model::item_expect(&e, &None)));
                        if **ret != want {
                            let sig = if matches!(ret, Ret::Err(_)) { "paged/error-although-entry-was-delivered" } else { "paged/wrong-entry" };
                            v.push(Violation::new("C04", if matches!(ret, Ret::Err(_)) { "C04.c" } else { "C04.b" }, sig, format!("client {c} step {six}: entry {i} of {k} delivered before the fault at {at}: got {}", clip(&format!("{:?}", ret)))));
                            ended = true;
                        }
                        i += 1;
                    } else {
                        ended = true;
                        match ret {
                            Ret::Err(_) => {
                                if final_arrived {
                                    v.push(Violation::new("C04", "C04.c", "paged/error-although-final-result-was-delivered", format!("client {c} step {six}")));
                                }
                            }
                            Ret::Item(None) => {
                                if final_arrived {
                                    done = true;
                                } else {
                                    v.push(Violation::new("C04", "C04.b", "paged/normal-end-although-the-connection-was-lost", format!("client {c} step {six}: {k} of {} entries had been delivered before the fault at offset {at}, the final result had not; next() reported the end of the search", pm.n)));
                                }
                            }
                            other => v.push(Violation::new("C04", "C04.b", "paged/value-that-was-not-received", format!("client {c} step {six}: {}", clip(&format!("{:?}", other))))),
                        }
                    }
                }
                Step::Finish { .. } => {
                    if let Ret::Fin(r) = ret {
                        if done {
                            if r.rc != pm.final_rc || r.text != format!("{token}:page-done@{}", pm.n) {
                                v.push(Violation::new("C04", "C04.b", "paged/finish-differs", format!("{:?}", r)));
                            }
                        } else if r.rc != 88 {
                            v.push(Violation::new("C04", "C04.b", "paged/finish-reports-a-result-for-an-unfinished-search", format!("client {c} step {six}: {}", clip(&format!("{:?}", r)))));
                        }
                    }
                }
                _ => {}
            }
        }
    }
    v
}

/// C02 on the PAGED family: every SearchRequest a paged search puts on the wire is the search the
/// caller asked for (same arguments, options and other controls on every page).
pub fn check_c02_paged(sc: &Scenario, rr: &RunResult) -> Vec<Violation> {
    let mut out = vec![];
    for e in &rr.hist {
        if let EvKind::SrvUndecodable { why, .. } = &e.kind {
            out.push(Violation::new("C02", "C02.wellformed", "request-not-decodable", format!("the server could not decode what the client wrote: {why}")));
        }
    }
    for x in check_c16(sc, rr) {
        let request_side = x.clause == "C16.b" || x.clause == "C16.panic" || x.clause == "C16.hang";
        if !request_side {
            continue;
        }
        let clause = match x.clause.as_str() {
            "C16.b" => "C02.paged".to_string(),
            other => other.replace("C16", "C02"),
        };
        out.push(Violation { property: "C02".into(), clause, signature: format!("paged/{}", x.signature), detail: x.detail });
    }
    out
}

/// C16 on the PAGEDFAULT family: whatever happens to the connection, the entries handed out are a
/// prefix of the result set in server order, each exactly once, the end of the search is reported
/// only after the last page, and no result handed out by finish() carries a paging control.
pub fn check_c16_fault(sc: &Scenario, rr: &RunResult) -> Vec<Violation> {
    const PAGED: &[u8] = b"1.2.840.113556.1.4.319";
    let mut v = vec![];
    if rr.verdict != crate::exec::Verdict::Done {
        // a hang under a fault is C04's business
        return v;
    }
    for (actor, msg, file) in panics(&rr.hist) {
        v.push(Violation::new("C16", "C16.panic", format!("panic/{}/{}", short_file(&file), trunc(&msg, 60)), format!("{actor} panicked: {msg} ({file})")));
    }
    if !v.is_empty() {
        return v;
    }
    let Some(pm) = &sc.plan.paging else { return v };
    let rets = returns_by_step(&rr.hist);
    for (c, cs) in sc.clients.iter().enumerate() {
        let Some(Step::Open { token, .. }) = cs.steps.first() else { continue };
        if !matches!(rets.get(&(c, 0)).map(|x| x.0), Some(Ret::Opened)) {
            continue;
        }
        let mut i = 0usize;
        let mut ended = false;
        let mut normal_end = false;
        for (six, st) in cs.steps.iter().enumerate().skip(1) {
            let Some((ret, ..)) = rets.get(&(c, six)) else { continue };
            match st {
                Step::Next { .. } => {
                    if ended || **ret == Ret::Skipped {
                        continue;
                    }
                    match ret {
                        Ret::Item(Some(_)) => {
                            let e = crate::msg::RespOp::Entry { dn: format!("cn=e{i},{token}"), attrs: vec![("cn".into(), vec![format!("e{i}").into_bytes()])] };
                            let want = Ret::Item(Some(model::item_expect(&e, &None)));
                            if i >= pm.n || **ret != want {
                                v.push(Violation::new("C16", "C16.a", "fault/wrong-entry (lost, duplicated or out of order)", format!("client {c} step {six} ({token}, entry index {i} of {}): got {}", pm.n, clip(&format!("{:?}", ret)))));
                                ended = true;
                            }
                            i += 1;
                        }
                        Ret::Item(None) => {
                            ended = true;
                            normal_end = true;
                            if i < pm.n {
                                v.push(Violation::new("C16", "C16.a", "fault/end-before-all-entries", format!("client {c} step {six} ({token}): next() reported the end of the search after {i} of {} entries", pm.n)));
                            }
                        }
                        _ => ended = true,
                    }
                }
                Step::Finish { .. } => {
                    if let Ret::Fin(r) = ret {
                        if r.ctrls.iter().any(|c| c.oid.as_bytes() == PAGED) {
                            v.push(Violation::new(
                                "C16",
                                "C16.d",
                                if normal_end { "fault/final-result-carries-paging-control" } else { "fault/page-result-with-paging-control-handed-out-for-an-unfinished-search" },
                                format!("client {c} step {six}: {}", clip(&format!("{:?}", r))),
                            ));
                        }
                    }
                }
                _ => {}
            }
        }
    }
    v
}


/// C04 on the real transports (lane REALIO).
pub fn check_c04_real(sc: &Scenario, rr: &RunResult) -> Vec<Violation> {
    use crate::realio::{Ending, RealCase, RealObs};
    let mut v = vec![];
    let Ok(case) = serde_json::from_str::<RealCase>(&sc.note) else { return v };
    let Some(obs) = rr.hist.iter().find_map(|e| match &e.kind {
        EvKind::Note(n) => n.strip_prefix("realio ").and_then(|j| serde_json::from_str::<RealObs>(j).ok()),
        _ => None,
    }) else {
        return v;
    };
    if obs.skipped.is_some() {
        return v;
    }
    let ending = match case.ending {
        Ending::Unbind => "unbind",
        Ending::DropHandles => "drop-handles",
        Ending::PeerClose { .. } => "peer-close",
        Ending::PeerReset { .. } => "peer-reset",
        Ending::PeerGarbage { .. } => "peer-garbage",
        Ending::PeerCloseIdle => "peer-close-idle",
        Ending::PeerCloseAtAccept => "peer-close-at-accept",
    };
    let ctx = format!("{:?}/{}/{}", case.transport, if case.sync_api { "sync" } else { "async" }, ending);
    let mut bad = |clause: &str, what: &str, detail: String| v.push(Violation::new("C04", clause, format!("real/{ctx}/{what}"), format!("{detail} [{:?}] observed {:?}", case, obs)));
    if obs.establish.starts_with("panic") {
        bad("C04.panic", "panic", obs.establish.clone());
        return v;
    }
    if obs.establish == "hang" {
        bad("C04.a", "establishment-hangs", String::new());
        return v;
    }
    if obs.establish != "ok" {
        // the environment refused (no violation of this property; establishment is C17/C18's business)
        return v;
    }
    for (i, w) in obs.warm.iter().enumerate() {
        if *w != format!("ok:R{}", i + 1) {
            bad(if w == "hang" { "C04.a" } else { "C04.c" }, "warm-up-operation", format!("bind {} returned {w}", i + 1));
            return v;
        }
    }
    let check_calls_fail = |bad: &mut dyn FnMut(&str, &str, String)| {
        for (i, c) in obs.calls.iter().enumerate() {
            match c.as_str() {
                "err" => {}
                "hang" => bad("C04.a", "pending-operation-hangs", format!("pending operation {i} did not return within the guard")),
                other => bad("C04.b", "pending-operation-returns-a-value-that-was-not-received", format!("pending operation {i}: {other}")),
            }
        }
    };
    match case.ending {
        Ending::Unbind => {
            if obs.calls.first().map(|s| s.as_str()) != Some("ok") {
                bad("C04.f", "unbind-fails", format!("unbind() returned {:?}", obs.calls.first()));
            }
            if !obs.unbind_seen_by_peer {
                bad("C04.f", "no-unbind-request-on-the-wire", String::new());
            }
            if obs.peer_saw_end != "yes" {
                bad("C04.f", "unbind-does-not-close-the-transport", "the peer did not see the end of the client's stream within the guard after unbind() had returned".into());
            }
            if obs.later != "err" {
                bad(if obs.later == "hang" { "C04.a" } else { "C04.d" }, "operation-after-unbind", format!("an operation started after unbind() returned {}", obs.later));
            }
        }
        Ending::DropHandles => {
            if obs.peer_saw_end != "yes" {
                bad("C04.f", "dropping-the-last-handle-does-not-close-the-transport", "the peer did not see the end of the client's stream within the guard".into());
            }
        }
        Ending::PeerClose { .. } | Ending::PeerReset { .. } | Ending::PeerGarbage { .. } => {
            check_calls_fail(&mut bad);
            if obs.later != "err" {
                bad(if obs.later == "hang" { "C04.a" } else { "C04.d" }, "operation-after-the-failure", format!("an operation started after the connection had failed returned {}", obs.later));
            }
        }
        Ending::PeerCloseIdle | Ending::PeerCloseAtAccept => {
            if obs.later != "err" {
                bad(if obs.later == "hang" { "C04.a" } else { "C04.d" }, "operation-after-the-failure", format!("an operation started after the server had closed returned {}", obs.later));
            }
        }
    }
    if obs.drive == "hang" {
        bad("C04.a", "drive-does-not-return", "drive() had not returned within the guard".into());
    }
    v
}


/// C03 / C10 on the PAGED family: what a paged search hands to its caller - the entries in order (C10) and the
/// final result with the server's other response controls, in the server's order (C03, C10) - under the paging model.
fn paged_values(prop: &str, sc: &Scenario, rr: &RunResult, with_entries: bool) -> Vec<Violation> {
    let mut out = vec![];
    for x in check_c16(sc, rr) {
        let keep = x.clause == "C16.d" || x.clause == "C16.panic" || x.clause == "C16.hang" || (with_entries && x.clause == "C16.a");
        if !keep {
            continue;
        }
        let clause = match x.clause.as_str() {
            "C16.d" => format!("{prop}.paged-result"),
            "C16.a" => format!("{prop}.paged-items"),
            other => other.replace("C16", prop),
        };
        out.push(Violation { property: prop.into(), clause, signature: format!("paged/{}", x.signature), detail: x.detail });
    }
    out
}

pub fn check_c03_paged(sc: &Scenario, rr: &RunResult) -> Vec<Violation> {
    paged_values("C03", sc, rr, false)
}

pub fn check_c10_paged(sc: &Scenario, rr: &RunResult) -> Vec<Violation> {
    paged_values("C10", sc, rr, true)
}
