//! Oracles: checks over the recorded history of one run.

use crate::model::{self, StreamModel};
use crate::runner::RunResult;
use crate::scenario::{OpSpec, ReplyPlan, Scenario, Step};
use crate::world::{Ev, EvKind, Ret};
use serde::{Deserialize, Serialize};
use std::collections::BTreeMap;

#[derive(Clone, Debug, PartialEq, Eq, Serialize, Deserialize)]
pub struct Violation {
    pub property: String,
    /// oracle clause, e.g. "C01.a"
    pub clause: String,
    /// stable discriminator naming what failed (survives refactoring)
    pub signature: String,
    pub detail: String,
}

impl Violation {
    pub fn new(property: &str, clause: &str, signature: impl Into<String>, detail: impl Into<String>) -> Violation {
        Violation { property: property.into(), clause: clause.into(), signature: signature.into(), detail: detail.into() }
    }
    pub fn key(&self) -> String {
        format!("{}|{}", self.clause, self.signature)
    }
}

pub fn returns_by_step(hist: &[Ev]) -> BTreeMap<(usize, usize), (&Ret, i32, u64, u64)> {
    let mut m = BTreeMap::new();
    for e in hist {
        if let EvKind::Return { client, step, ret, last_id, .. } = &e.kind {
            m.insert((*client, *step), (ret, *last_id, e.t_ms, e.seq));
        }
    }
    m
}

pub fn invokes_by_step(hist: &[Ev]) -> BTreeMap<(usize, usize), (u64, u64)> {
    let mut m = BTreeMap::new();
    for e in hist {
        if let EvKind::Invoke { client, step, .. } = &e.kind {
            m.insert((*client, *step), (e.t_ms, e.seq));
        }
    }
    m
}

/// All strings that identify server emissions inside a returned value (for misrouting diagnosis).
fn tokens_in(ret: &Ret) -> String {
    let mut s = format!("{:?}", ret);
    s.push_str(" | text: ");
    fn tlv(t: &crate::ber::Tlv, out: &mut String) {
        match &t.body {
            crate::ber::Body::Prim(v) => {
                out.push_str(&String::from_utf8_lossy(v));
                out.push(' ');
            }
            crate::ber::Body::Cons(v) => v.iter().for_each(|x| tlv(x, out)),
        }
    }
    fn res(r: &crate::world::ResC, out: &mut String) {
        for c in &r.ctrls {
            if let Some(v) = &c.val {
                out.push_str(&String::from_utf8_lossy(v));
                out.push(' ');
            }
        }
    }
    fn item(i: &crate::world::ItemC, out: &mut String) {
        tlv(&i.tlv, out);
        for c in &i.ctrls {
            if let Some(v) = &c.val {
                out.push_str(&String::from_utf8_lossy(v));
                out.push(' ');
            }
        }
    }
    match ret {
        Ret::Res(r) | Ret::Cmp(r) | Ret::Fin(r) => res(r, &mut s),
        Ret::Exop { val, res: r, .. } => {
            if let Some(v) = val {
                s.push_str(&String::from_utf8_lossy(v));
                s.push(' ');
            }
            res(r, &mut s)
        }
        Ret::Search { entries, res: r } => {
            entries.iter().for_each(|e| item(e, &mut s));
            res(r, &mut s)
        }
        Ret::Item(Some(i)) => item(i, &mut s),
        _ => {}
    }
    s
}

fn lifecycle(step: &Step) -> &'static str {
    match step {
        Step::Op { op, .. } => crate::client::op_kind(op),
        Step::Open { .. } => "open",
        Step::Next { .. } => "next",
        Step::Finish { .. } => "finish",
        Step::State { .. } => "state",
        _ => "other",
    }
}

#[derive(Clone, Debug)]
pub struct Mismatch {
    pub client: usize,
    pub step: usize,
    pub what: &'static str,
    pub expected: String,
    pub actual: String,
    /// the actual value carries content that belongs to another operation
    pub foreign: bool,
    pub missing: bool,
    /// context for signatures: adapter and phase of the stream, or empty
    pub ctx: String,
}

pub struct WalkOpts {
    /// compare `state()` results and calls after the end of a stream (C10)
    pub strict_stream: bool,
}

/// Walk every client script with the reference model and compare each returned value.
/// Valid for fault-free runs without timeouts.
pub fn walk_plain(sc: &Scenario, hist: &[Ev], opts: &WalkOpts) -> Vec<Mismatch> {
    let rets = returns_by_step(hist);
    let mut out = vec![];
    // all tokens, to diagnose foreign content
    let all_tokens: Vec<&String> = sc.plan.by_token.keys().collect();
    for (c, cs) in sc.clients.iter().enumerate() {
        let mut dropped = false;
        let mut streams: BTreeMap<usize, Option<(StreamModel, String)>> = BTreeMap::new();
        for (ix, step) in cs.steps.iter().enumerate() {
            let actual = rets.get(&(c, ix)).map(|x| x.0);
            let ctx = match step {
                Step::Next { slot, .. } | Step::Finish { slot } | Step::State { slot } => match streams.get(slot) {
                    Some(Some((m, _))) => format!("{:?}/{}", m.adapter, m.state.phase()),
                    _ => String::new(),
                },
                Step::Op { op: OpSpec::Search(_), .. } => "search()".to_string(),
                _ => String::new(),
            };
            let mut check = |expected: Option<Ret>, alt_cancel: bool, own_tok: &str, fin: bool| {
                let what = lifecycle(step);
                match (actual, expected) {
                    (None, _) => out.push(Mismatch {
                        client: c,
                        step: ix,
                        what,
                        expected: "a return".into(),
                        actual: "no return".into(),
                        foreign: false,
                        missing: true,
                        ctx: ctx.clone(),
                    }),
                    (Some(_), None) => {}
                    (Some(a), Some(e)) => {
                        if alt_cancel && *a == Ret::Cancelled {
                            return;
                        }
                        let ok = if fin { model::fin_matches(a, &e) } else { *a == e };
                        if !ok {
                            let s = tokens_in(a);
                            let foreign = all_tokens.iter().any(|t| t.as_str() != own_tok && contains_token(&s, t));
                            out.push(Mismatch {
                                client: c,
                                step: ix,
                                what,
                                expected: format!("{:?}", e),
                                actual: s,
                                foreign,
                                missing: false,
                                ctx: ctx.clone(),
                            });
                        }
                    }
                }
            };
            match step {
                Step::DropHandle => dropped = true,
                Step::Op { token, op, cancel_after_polls, .. } => {
                    if dropped {
                        check(Some(Ret::Skipped), false, token, false);
                        continue;
                    }
                    let exp = match op {
                        OpSpec::Abandon(_) | OpSpec::Unbind => Some(Ret::Unit),
                        OpSpec::Search(_) => match sc.plan.by_token.get(token) {
                            Some(ReplyPlan::Items { items, done: Some(d), .. }) => Some(model::search_expect(items, d)),
                            _ => None,
                        },
                        _ => match sc.plan.by_token.get(token) {
                            Some(ReplyPlan::Single { res, ctrls, .. }) => Some(model::single_expect(op, res, ctrls)),
                            _ => None,
                        },
                    };
                    check(exp, cancel_after_polls.is_some(), token, false);
                }
                Step::Open { token, slot, adapter, mods, .. } => {
                    if dropped {
                        check(Some(Ret::Skipped), false, token, false);
                        continue;
                    }
                    let m = sc.plan.by_token.get(token).and_then(|p| StreamModel::open(p, *adapter, mods.timeout_ms));
                    streams.insert(*slot, m.map(|m| (m, token.clone())));
                    check(Some(Ret::Opened), false, token, false);
                }
                Step::Next { slot, cancel_after_polls } => match streams.get_mut(slot) {
                    Some(Some((m, tok))) => {
                        if actual == Some(&Ret::Cancelled) && cancel_after_polls.is_some() {
                            continue;
                        }
                        let past_end = m.state != model::SState::Active;
                        if past_end && !opts.strict_stream {
                            continue;
                        }
                        if !opts.strict_stream && actual == Some(&Ret::Skipped) {
                            continue;
                        }
                        let e = m.next();
                        let tok = tok.clone();
                        check(Some(e), false, &tok, false);
                    }
                    _ => check(Some(Ret::Skipped), false, "", false),
                },
                Step::Finish { slot } => match streams.get_mut(slot) {
                    Some(Some((m, tok))) => {
                        let e = m.finish();
                        let tok = tok.clone();
                        check(Some(e), false, &tok, true);
                    }
                    _ => check(Some(Ret::Skipped), false, "", false),
                },
                Step::State { slot } => match streams.get(slot) {
                    Some(Some((m, tok))) => {
                        if opts.strict_stream {
                            let tok = tok.clone();
                            check(Some(Ret::State(m.state.name().to_string())), false, &tok, false);
                        }
                    }
                    _ => check(Some(Ret::Skipped), false, "", false),
                },
                Step::DropStream { slot } => {
                    streams.insert(*slot, None);
                }
                _ => {}
            }
        }
    }
    out
}

/// Does the rendered value mention `tok` as a whole token (followed by ':' or a non-token char)?
fn contains_token(s: &str, tok: &str) -> bool {
    let mut start = 0;
    while let Some(p) = s[start..].find(tok) {
        let i = start + p;
        let before_ok = i == 0 || !s.as_bytes()[i - 1].is_ascii_alphanumeric();
        let after = s.as_bytes().get(i + tok.len()).copied();
        let after_ok = match after {
            None => true,
            Some(b) => !b.is_ascii_alphanumeric(),
        };
        if before_ok && after_ok {
            return true;
        }
        start = i + tok.len();
    }
    false
}

/// client indices whose actor panicked
pub fn dead_clients(hist: &[Ev]) -> std::collections::BTreeSet<usize> {
    hist.iter()
        .filter_map(|e| match &e.kind {
            EvKind::Panic { actor, .. } => actor.strip_prefix("client").and_then(|n| n.parse().ok()),
            _ => None,
        })
        .collect()
}

pub fn panics(hist: &[Ev]) -> Vec<(String, String, String)> {
    hist.iter()
        .filter_map(|e| match &e.kind {
            EvKind::Panic { actor, msg, file } => Some((actor.clone(), msg.clone(), file.clone())),
            _ => None,
        })
        .collect()
}

fn short_file(f: &str) -> String {
    f.rsplit('/').take(2).collect::<Vec<_>>().into_iter().rev().collect::<Vec<_>>().join("/")
}

/// Clauses shared by every fault-free lane: the run must finish and nothing may panic.
pub fn check_clean_run(prop: &str, rr: &RunResult) -> Vec<Violation> {
    let mut v = vec![];
    match rr.verdict {
        crate::exec::Verdict::Done => {}
        crate::exec::Verdict::Hang => v.push(Violation::new(prop, &format!("{prop}.hang"), "hang", "a call or the driver did not complete before the virtual-time watchdog")),
        crate::exec::Verdict::StepCap => v.push(Violation::new(prop, &format!("{prop}.hang"), "livelock", "step cap reached")),
    }
    for (actor, msg, file) in panics(&rr.hist) {
        let who = if actor.starts_with("client") { "client" } else { actor.as_str() };
        v.push(Violation::new(prop, &format!("{prop}.panic"), format!("panic/{who}/{}/{}", short_file(&file), trunc(&msg, 60)), format!("{actor} panicked: {msg} ({file})")));
    }
    v
}

pub fn trunc(s: &str, n: usize) -> String {
    // strip digits so that IDs/lengths do not split signatures
    let t: String = s.chars().map(|c| if c.is_ascii_digit() { '#' } else { c }).collect();
    t.chars().take(n).collect()
}

/// C01: routing. Family MUX (fault-free, no timeouts).
pub fn check_c01(sc: &Scenario, rr: &RunResult) -> Vec<Violation> {
    let mut v = check_clean_run("C01", rr);
    let dead = dead_clients(&rr.hist);
    for m in walk_plain(sc, &rr.hist, &WalkOpts { strict_stream: false }) {
        if m.missing && (dead.contains(&m.client) || rr.verdict != crate::exec::Verdict::Done) {
            // already reported as panic / hang
            continue;
        }
        let (clause, sig) = if m.missing {
            ("C01.d", format!("no-return/{}", m.what))
        } else if m.foreign {
            ("C01.a", format!("foreign-content/{}", m.what))
        } else if m.what == "next" || m.what == "search" {
            ("C01.b", format!("wrong-sequence/{}", m.what))
        } else {
            ("C01.d", format!("wrong-value/{}", m.what))
        };
        v.push(Violation::new(
            "C01",
            clause,
            sig,
            format!("client {} step {}: expected {} got {}", m.client, m.step, clip(&m.expected), clip(&m.actual)),
        ));
    }
    v
}

pub fn clip(s: &str) -> String {
    if s.len() > 600 {
        let mut end = 600;
        while !s.is_char_boundary(end) {
            end -= 1;
        }
        format!("{}…", &s[..end])
    } else {
        s.to_string()
    }
}

/// C10: search-stream state machine. Family STREAM.
pub fn check_c10(sc: &Scenario, rr: &RunResult) -> Vec<Violation> {
    let mut v = check_clean_run("C10", rr);
    let dead = dead_clients(&rr.hist);
    for m in walk_plain(sc, &rr.hist, &WalkOpts { strict_stream: true }) {
        if m.missing && (dead.contains(&m.client) || rr.verdict != crate::exec::Verdict::Done) {
            continue;
        }
        let clause = match m.what {
            "state" => "C10.state",
            "finish" => "C10.finish",
            "search" => "C10.search",
            _ => "C10.items",
        };
        let sig = format!("{}/{}{}", m.what, m.ctx, if m.missing { "/no-return" } else { "" });
        v.push(Violation::new(
            "C10",
            clause,
            sig,
            format!("client {} step {}: expected {} got {}", m.client, m.step, clip(&m.expected), clip(&m.actual)),
        ));
    }
    v
}

/// Lifecycle class of the operation that owns `token` (for leak signatures).
pub fn lifecycle_class(sc: &Scenario, hist: &[Ev], token: &str) -> String {
    let rets = returns_by_step(hist);
    for (cidx, cs) in sc.clients.iter().enumerate() {
        for (ix, st) in cs.steps.iter().enumerate() {
            match st {
                Step::Op { token: t, op, mods, .. } if t == token => {
                    let kind = match op {
                        OpSpec::Search(_) => "search()",
                        OpSpec::Abandon(_) => "abandon",
                        OpSpec::Unbind => "unbind",
                        _ => "single",
                    };
                    let how = match sc.plan.by_token.get(token) {
                        Some(ReplyPlan::Silent) if mods.timeout_ms.is_some() => "timed-out",
                        Some(ReplyPlan::Silent) => "in-flight",
                        Some(ReplyPlan::Paged) => "paged",
                        _ => "completed",
                    };
                    return format!("{kind}/{how}");
                }
                Step::Open { token: t, slot, adapter, mods, .. } if t == token => {
                    let mut saw_end = false;
                    let mut saw_err = false;
                    for (off, later) in cs.steps[ix + 1..].iter().enumerate() {
                        match later {
                            Step::Next { slot: s2, .. } if s2 == slot => match rets.get(&(cidx, ix + 1 + off)).map(|x| x.0) {
                                Some(Ret::Item(None)) => saw_end = true,
                                Some(Ret::Err(_)) => saw_err = true,
                                _ => {}
                            },
                            Step::Finish { slot: s2 } | Step::DropStream { slot: s2 } if s2 == slot => break,
                            Step::Open { slot: s2, .. } if s2 == slot => break,
                            _ => {}
                        }
                    }
                    let how = if saw_err {
                        "errored"
                    } else if matches!(sc.plan.by_token.get(token), Some(ReplyPlan::Paged)) {
                        "paged"
                    } else if saw_end {
                        "read-to-end"
                    } else {
                        "finished-early"
                    };
                    let _ = mods;
                    return format!("stream-{:?}/{how}", adapter).replace(|c: char| c.is_ascii_digit(), "").replace("()", "");
                }
                _ => {}
            }
        }
    }
    "unknown".into()
}

/// C13: no residue at quiescent points; abandon clauses. Family LEAK.
pub fn check_c13(sc: &Scenario, rr: &RunResult) -> Vec<Violation> {
    let mut v = check_clean_run("C13", rr);
    let phantoms: std::collections::BTreeSet<i32> = sc.id_table.as_ref().map(|t| t.1.iter().copied().collect()).unwrap_or_default();
    // id -> token as seen by the server
    let mut tok_of: BTreeMap<i64, (String, String)> = BTreeMap::new();
    for e in &rr.hist {
        if let EvKind::SrvRecv { id, token, kind, .. } = &e.kind {
            tok_of.insert(*id, (token.clone(), kind.clone()));
        }
    }
    let class_of = |id: i32| -> String {
        match tok_of.get(&(id as i64)) {
            Some((t, k)) => {
                let c = lifecycle_class(sc, &rr.hist, t);
                if c == "unknown" {
                    format!("{k}/own-id")
                } else {
                    c
                }
            }
            None => "never-sent".into(),
        }
    };
    let driver_alive_at = |seq: u64| !rr.hist.iter().any(|e| e.seq < seq && matches!(e.kind, EvKind::DriverExit { .. }));
    for e in &rr.hist {
        if let EvKind::Snapshot { label, in_use, resultmap, searchmap, .. } = &e.kind {
            if !driver_alive_at(e.seq) {
                continue;
            }
            for id in in_use.iter().filter(|i| !phantoms.contains(i)) {
                v.push(Violation::new("C13", "C13.ids", format!("id-reserved/{}", class_of(*id)), format!("at {label} checkpoint (t={}ms) message ID {id} is still reserved although no operation is outstanding", e.t_ms)));
            }
            for id in resultmap {
                v.push(Violation::new("C13", "C13.routing", format!("resultmap/{}", class_of(*id)), format!("at {label} checkpoint the single-result routing map still holds ID {id}")));
            }
            for id in searchmap {
                v.push(Violation::new("C13", "C13.routing", format!("searchmap/{}", class_of(*id)), format!("at {label} checkpoint the search routing map still holds ID {id}")));
            }
        }
    }
    // abandon clauses
    let rets = returns_by_step(&rr.hist);
    let mut abandons_seen: Vec<i64> = rr.requests.iter().filter_map(|q| if let crate::msg::ReqOp::Abandon { id } = &q.op { Some(*id) } else { None }).collect();
    for (c, cs) in sc.clients.iter().enumerate() {
        for (ix, st) in cs.steps.iter().enumerate() {
            if let Step::Op { op: OpSpec::Abandon(crate::scenario::IdRef::Token(target)), .. } = st {
                let Some((ret, ..)) = rets.get(&(c, ix)) else { continue };
                if **ret != Ret::Unit {
                    continue;
                }
                // the ID the server saw for the target
                let wire = rr.hist.iter().find_map(|e| match &e.kind {
                    EvKind::SrvRecv { id, token, .. } if token == target => Some(*id),
                    _ => None,
                });
                let Some(wire) = wire else { continue };
                match abandons_seen.iter().position(|x| *x == wire) {
                    Some(p) => {
                        abandons_seen.remove(p);
                    }
                    None => v.push(Violation::new("C13", "C13.abandon-wire", format!("abandon-names-wrong-id/{}", lifecycle_class(sc, &rr.hist, target)), format!("abandon of {target} (wire ID {wire}) did not produce an AbandonRequest naming that ID"))),
                }
                // a caller waiting on an in-flight target must be released with an error
                if lifecycle_class(sc, &rr.hist, target).ends_with("in-flight") {
                    for (c2, cs2) in sc.clients.iter().enumerate() {
                        for (ix2, st2) in cs2.steps.iter().enumerate() {
                            if let Step::Op { token, .. } = st2 {
                                if token == target {
                                    match rets.get(&(c2, ix2)) {
                                        Some((Ret::Err(_), ..)) => {}
                                        Some((other, ..)) => v.push(Violation::new("C13", "C13.abandon-release", "abandoned-caller-not-error", format!("caller of abandoned {target} returned {:?}", other))),
                                        None => {
                                            if rr.verdict == crate::exec::Verdict::Done {
                                                v.push(Violation::new("C13", "C13.abandon-release", "abandoned-caller-never-returned", format!("caller of abandoned {target} never returned")))
                                            }
                                        }
                                    }
                                }
                            }
                        }
                    }
                }
            }
        }
    }
    v
}

/// C05 black box: IDs seen by the server. Valid for every family without duplicate/late traffic.
pub fn check_c05_blackbox(sc: &Scenario, rr: &RunResult) -> Vec<Violation> {
    let mut v = vec![];
    let phantoms: std::collections::BTreeSet<i64> = sc.id_table.as_ref().map(|t| t.1.iter().map(|x| *x as i64).collect()).unwrap_or_default();
    // when does the call that owns `token` stop being outstanding? (event seq)
    let rets = returns_by_step(&rr.hist);
    let mut end_of: BTreeMap<String, u64> = BTreeMap::new();
    for (c, cs) in sc.clients.iter().enumerate() {
        for (ix, st) in cs.steps.iter().enumerate() {
            match st {
                Step::Op { token, .. } => {
                    if let Some((_, _, _, seq)) = rets.get(&(c, ix)) {
                        end_of.insert(token.clone(), *seq);
                    }
                }
                Step::Open { token, slot, .. } => {
                    // outstanding until the stream is finished (or the open failed)
                    let mut end = None;
                    if let Some((Ret::Err(_), _, _, seq)) = rets.get(&(c, ix)) {
                        end = Some(*seq);
                    }
                    if end.is_none() {
                        for (off, later) in cs.steps[ix + 1..].iter().enumerate() {
                            match later {
                                Step::Finish { slot: s2 } if s2 == slot => {
                                    end = rets.get(&(c, ix + 1 + off)).map(|x| x.3);
                                    break;
                                }
                                Step::Open { slot: s2, .. } if s2 == slot => break,
                                _ => {}
                            }
                        }
                    }
                    if let Some(e) = end {
                        end_of.insert(token.clone(), e);
                    }
                }
                _ => {}
            }
        }
    }
    // an operation also stops being outstanding once its final response has been delivered to the
    // client's transport (the driver releases the ID when it routes that response)
    let mut final_end: BTreeMap<String, usize> = BTreeMap::new();
    for e in &rr.hist {
        if let EvKind::SrvEmit { label, range, .. } = &e.kind {
            if let Some(tok) = label.strip_suffix(":reply").or_else(|| label.strip_suffix(":done")) {
                final_end.insert(tok.to_string(), range.1);
            }
        }
    }
    for e in &rr.hist {
        if let EvKind::NetDeliver { upto } = &e.kind {
            for (tok, end) in &final_end {
                if *upto >= *end {
                    let cur = end_of.get(tok).copied();
                    if cur.map_or(true, |c| c > e.seq) {
                        end_of.insert(tok.clone(), e.seq);
                    }
                }
            }
        }
    }
    let mut seen: Vec<(i64, String, String, u64)> = vec![]; // id, token, kind, recv seq
    for e in &rr.hist {
        if let EvKind::SrvRecv { id, token, kind, .. } = &e.kind {
            if !(1..=2147483647).contains(id) {
                v.push(Violation::new("C05", "C05.range", format!("id-out-of-range/{kind}"), format!("request {token} left the client with message ID {id}")));
            }
            if phantoms.contains(id) {
                v.push(Violation::new("C05", "C05.inuse", format!("id-of-in-use-entry/{kind}"), format!("request {token} uses message ID {id}, which was in use (pre-seeded) for the whole run")));
            }
            for (id2, tok2, kind2, _) in &seen {
                if id2 == id {
                    // is the earlier request still outstanding?
                    let ended = if kind2 == "abandon" || kind2 == "unbind" { end_of.get(tok2).or(Some(&0)) } else { end_of.get(tok2) };
                    let outstanding = match ended {
                        None => true,
                        Some(s) => *s > e.seq,
                    };
                    if outstanding {
                        v.push(Violation::new(
                            "C05",
                            "C05.distinct",
                            format!("id-shared-with-outstanding/{kind2}+{kind}"),
                            format!("request {token} ({kind}) uses message ID {id} while {tok2} ({kind2}) with the same ID has not returned to its caller"),
                        ));
                    }
                }
            }
            seen.push((*id, token.clone(), kind.clone(), e.seq));
        }
    }
    v
}

/// C05 white box: table snapshots around the first poll of every operation (hook H4).
pub fn check_c05_whitebox(_sc: &Scenario, rr: &RunResult) -> Vec<Violation> {
    let mut v = vec![];
    let mut prev: Option<(usize, usize, i32, Vec<i32>)> = None;
    for e in &rr.hist {
        if let EvKind::AllocSnap { client, step, last, in_use } = &e.kind {
            match prev.take() {
                Some((c0, s0, last0, in0)) if c0 == *client && s0 == *step => {
                    let before: std::collections::BTreeSet<i32> = in0.iter().copied().collect();
                    let after: std::collections::BTreeSet<i32> = in_use.iter().copied().collect();
                    let added: Vec<i32> = after.difference(&before).copied().collect();
                    let removed: Vec<i32> = before.difference(&after).copied().collect();
                    if added.is_empty() && removed.is_empty() && *last == last0 {
                        // the call did not allocate (e.g. refused before sending)
                        continue;
                    }
                    let id = *last;
                    if before.contains(&id) {
                        v.push(Violation::new("C05", "C05.wb-inuse", "allocated-id-was-in-use", format!("client {client} step {step}: allocated {id} which was in the in-use set")));
                    }
                    if !(1..=2147483647).contains(&id) {
                        v.push(Violation::new("C05", "C05.wb-range", "allocated-id-out-of-range", format!("client {client} step {step}: allocated {id}")));
                    }
                    if added != vec![id] || !removed.is_empty() {
                        v.push(Violation::new("C05", "C05.wb-insert", "allocation-not-recorded", format!("client {client} step {step}: allocated {id}, in-use set changed by +{:?} -{:?}", added, removed)));
                    }
                    // upper end: everything from last0+1 to MAX in use (or last0 == MAX) => lowest free ID
                    let upper_exhausted = last0 == 2147483647 || {
                        let span = 2147483647i64 - last0 as i64;
                        span <= before.len() as i64 && (last0 as i64 + 1..=2147483647i64).all(|x| before.contains(&(x as i32)))
                    };
                    if upper_exhausted {
                        let mut low = 1;
                        while before.contains(&low) {
                            low += 1;
                        }
                        if id != low {
                            v.push(Violation::new("C05", "C05.wb-wrap", "wrap-not-lowest-free", format!("client {client} step {step}: counter at {last0} with the upper end exhausted; allocated {id}, lowest free ID is {low}")));
                        }
                    }
                }
                _ => prev = Some((*client, *step, *last, in_use.clone())),
            }
        }
    }
    v
}

pub fn check_c05(sc: &Scenario, rr: &RunResult) -> Vec<Violation> {
    let mut v = check_clean_run("C05", rr);
    v.extend(check_c05_blackbox(sc, rr));
    v.extend(check_c05_whitebox(sc, rr));
    v
}

pub fn check_c05_mux(sc: &Scenario, rr: &RunResult) -> Vec<Violation> {
    let mut v = check_clean_run("C05", rr);
    v.extend(check_c05_blackbox(sc, rr));
    v
}
