//! Oracles: checks over the recorded history of one run.

use crate::model::{self, StreamModel};
use crate::runner::RunResult;
use crate::scenario::{OpSpec, ReplyPlan, Scenario, Step};
use crate::world::{Ev, EvKind, Ret};
use serde::{Deserialize, Serialize};
use std::collections::BTreeMap;

#[derive(Clone, Debug, PartialEq, Eq, Serialize, Deserialize)]
pub struct Violation {
    pub property: String,
    /// oracle clause, e.g. "C01.a"
    pub clause: String,
    /// stable discriminator naming what failed (survives refactoring)
    pub signature: String,
    pub detail: String,
}

impl Violation {
    pub fn new(property: &str, clause: &str, signature: impl Into<String>, detail: impl Into<String>) -> Violation {
        Violation { property: property.into(), clause: clause.into(), signature: signature.into(), detail: detail.into() }
    }
    pub fn key(&self) -> String {
        format!("{}|{}", self.clause, self.signature)
    }
}

pub fn returns_by_step(hist: &[Ev]) -> BTreeMap<(usize, usize), (&Ret, i32, u64, u64)> {
    let mut m = BTreeMap::new();
    for e in hist {
        if let EvKind::Return { client, step, ret, last_id, .. } = &e.kind {
            m.insert((*client, *step), (ret, *last_id, e.t_ms, e.seq));
        }
    }
    m
}

pub fn invokes_by_step(hist: &[Ev]) -> BTreeMap<(usize, usize), (u64, u64)> {
    let mut m = BTreeMap::new();
    for e in hist {
        if let EvKind::Invoke { client, step, .. } = &e.kind {
            m.insert((*client, *step), (e.t_ms, e.seq));
        }
    }
    m
}

/// All strings that identify server emissions inside a returned value (for misrouting diagnosis).
fn tokens_in(ret: &Ret) -> String {
    let mut s = format!("{:?}", ret);
    s.push_str(" | text: ");
    fn tlv(t: &crate::ber::Tlv, out: &mut String) {
        match &t.body {
            crate::ber::Body::Prim(v) => {
                out.push_str(&String::from_utf8_lossy(v));
                out.push(' ');
            }
            crate::ber::Body::Cons(v) => v.iter().for_each(|x| tlv(x, out)),
        }
    }
    fn res(r: &crate::world::ResC, out: &mut String) {
        for c in &r.ctrls {
            if let Some(v) = &c.val {
                out.push_str(&String::from_utf8_lossy(v));
                out.push(' ');
            }
        }
    }
    fn item(i: &crate::world::ItemC, out: &mut String) {
        tlv(&i.tlv, out);
        for c in &i.ctrls {
            if let Some(v) = &c.val {
                out.push_str(&String::from_utf8_lossy(v));
                out.push(' ');
            }
        }
    }
    match ret {
        Ret::Res(r) | Ret::Cmp(r) | Ret::Fin(r) => res(r, &mut s),
        Ret::Exop { val, res: r, .. } => {
            if let Some(v) = val {
                s.push_str(&String::from_utf8_lossy(v));
                s.push(' ');
            }
            res(r, &mut s)
        }
        Ret::Search { entries, res: r } => {
            entries.iter().for_each(|e| item(e, &mut s));
            res(r, &mut s)
        }
        Ret::Item(Some(i)) => item(i, &mut s),
        _ => {}
    }
    s
}

fn lifecycle(step: &Step) -> &'static str {
    match step {
        Step::Op { op, .. } => crate::client::op_kind(op),
        Step::Open { .. } => "open",
        Step::Next { .. } => "next",
        Step::Finish { .. } => "finish",
        Step::State { .. } => "state",
        _ => "other",
    }
}

#[derive(Clone, Debug)]
pub struct Mismatch {
    pub client: usize,
    pub step: usize,
    pub what: &'static str,
    pub expected: String,
    pub actual: String,
    /// the actual value carries content that belongs to another operation
    pub foreign: bool,
    pub missing: bool,
}

pub struct WalkOpts {
    /// compare `state()` results and calls after the end of a stream (C10)
    pub strict_stream: bool,
}

/// Walk every client script with the reference model and compare each returned value.
/// Valid for fault-free runs without timeouts.
pub fn walk_plain(sc: &Scenario, hist: &[Ev], opts: &WalkOpts) -> Vec<Mismatch> {
    let rets = returns_by_step(hist);
    let mut out = vec![];
    // all tokens, to diagnose foreign content
    let all_tokens: Vec<&String> = sc.plan.by_token.keys().collect();
    for (c, cs) in sc.clients.iter().enumerate() {
        let mut dropped = false;
        let mut streams: BTreeMap<usize, Option<(StreamModel, String)>> = BTreeMap::new();
        for (ix, step) in cs.steps.iter().enumerate() {
            let actual = rets.get(&(c, ix)).map(|x| x.0);
            let mut check = |expected: Option<Ret>, alt_cancel: bool, own_tok: &str, fin: bool| {
                let what = lifecycle(step);
                match (actual, expected) {
                    (None, _) => out.push(Mismatch {
                        client: c,
                        step: ix,
                        what,
                        expected: "a return".into(),
                        actual: "no return".into(),
                        foreign: false,
                        missing: true,
                    }),
                    (Some(_), None) => {}
                    (Some(a), Some(e)) => {
                        if alt_cancel && *a == Ret::Cancelled {
                            return;
                        }
                        let ok = if fin { model::fin_matches(a, &e) } else { *a == e };
                        if !ok {
                            let s = tokens_in(a);
                            let foreign = all_tokens.iter().any(|t| t.as_str() != own_tok && contains_token(&s, t));
                            out.push(Mismatch {
                                client: c,
                                step: ix,
                                what,
                                expected: format!("{:?}", e),
                                actual: s,
                                foreign,
                                missing: false,
                            });
                        }
                    }
                }
            };
            match step {
                Step::DropHandle => dropped = true,
                Step::Op { token, op, cancel_after_polls, .. } => {
                    if dropped {
                        check(Some(Ret::Skipped), false, token, false);
                        continue;
                    }
                    let exp = match op {
                        OpSpec::Abandon(_) | OpSpec::Unbind => Some(Ret::Unit),
                        OpSpec::Search(_) => match sc.plan.by_token.get(token) {
                            Some(ReplyPlan::Items { items, done: Some(d), .. }) => Some(model::search_expect(items, d)),
                            _ => None,
                        },
                        _ => match sc.plan.by_token.get(token) {
                            Some(ReplyPlan::Single { res, ctrls, .. }) => Some(model::single_expect(op, res, ctrls)),
                            _ => None,
                        },
                    };
                    check(exp, cancel_after_polls.is_some(), token, false);
                }
                Step::Open { token, slot, adapter, .. } => {
                    if dropped {
                        check(Some(Ret::Skipped), false, token, false);
                        continue;
                    }
                    let m = sc.plan.by_token.get(token).and_then(|p| StreamModel::open(p, *adapter));
                    streams.insert(*slot, m.map(|m| (m, token.clone())));
                    check(Some(Ret::Opened), false, token, false);
                }
                Step::Next { slot, cancel_after_polls } => match streams.get_mut(slot) {
                    Some(Some((m, tok))) => {
                        if actual == Some(&Ret::Cancelled) && cancel_after_polls.is_some() {
                            continue;
                        }
                        let past_end = m.state != model::SState::Active;
                        if past_end && !opts.strict_stream {
                            continue;
                        }
                        if !opts.strict_stream && actual == Some(&Ret::Skipped) {
                            continue;
                        }
                        let e = m.next();
                        let tok = tok.clone();
                        check(Some(e), false, &tok, false);
                    }
                    _ => check(Some(Ret::Skipped), false, "", false),
                },
                Step::Finish { slot } => match streams.get_mut(slot) {
                    Some(Some((m, tok))) => {
                        let e = m.finish();
                        let tok = tok.clone();
                        check(Some(e), false, &tok, true);
                    }
                    _ => check(Some(Ret::Skipped), false, "", false),
                },
                Step::State { slot } => match streams.get(slot) {
                    Some(Some((m, tok))) => {
                        if opts.strict_stream {
                            let tok = tok.clone();
                            check(Some(Ret::State(m.state.name().to_string())), false, &tok, false);
                        }
                    }
                    _ => check(Some(Ret::Skipped), false, "", false),
                },
                Step::DropStream { slot } => {
                    streams.insert(*slot, None);
                }
                _ => {}
            }
        }
    }
    out
}

/// Does the rendered value mention `tok` as a whole token (followed by ':' or a non-token char)?
fn contains_token(s: &str, tok: &str) -> bool {
    let mut start = 0;
    while let Some(p) = s[start..].find(tok) {
        let i = start + p;
        let before_ok = i == 0 || !s.as_bytes()[i - 1].is_ascii_alphanumeric();
        let after = s.as_bytes().get(i + tok.len()).copied();
        let after_ok = match after {
            None => true,
            Some(b) => !b.is_ascii_alphanumeric(),
        };
        if before_ok && after_ok {
            return true;
        }
        start = i + tok.len();
    }
    false
}

/// client indices whose actor panicked
pub fn dead_clients(hist: &[Ev]) -> std::collections::BTreeSet<usize> {
    hist.iter()
        .filter_map(|e| match &e.kind {
            EvKind::Panic { actor, .. } => actor.strip_prefix("client").and_then(|n| n.parse().ok()),
            _ => None,
        })
        .collect()
}

pub fn panics(hist: &[Ev]) -> Vec<(String, String, String)> {
    hist.iter()
        .filter_map(|e| match &e.kind {
            EvKind::Panic { actor, msg, file } => Some((actor.clone(), msg.clone(), file.clone())),
            _ => None,
        })
        .collect()
}

fn short_file(f: &str) -> String {
    f.rsplit('/').take(2).collect::<Vec<_>>().into_iter().rev().collect::<Vec<_>>().join("/")
}

/// Clauses shared by every fault-free lane: the run must finish and nothing may panic.
pub fn check_clean_run(prop: &str, rr: &RunResult) -> Vec<Violation> {
    let mut v = vec![];
    match rr.verdict {
        crate::exec::Verdict::Done => {}
        crate::exec::Verdict::Hang => v.push(Violation::new(prop, &format!("{prop}.hang"), "hang", "a call or the driver did not complete before the virtual-time watchdog")),
        crate::exec::Verdict::StepCap => v.push(Violation::new(prop, &format!("{prop}.hang"), "livelock", "step cap reached")),
    }
    for (actor, msg, file) in panics(&rr.hist) {
        let who = if actor.starts_with("client") { "client" } else { actor.as_str() };
        v.push(Violation::new(prop, &format!("{prop}.panic"), format!("panic/{who}/{}/{}", short_file(&file), trunc(&msg, 60)), format!("{actor} panicked: {msg} ({file})")));
    }
    v
}

pub fn trunc(s: &str, n: usize) -> String {
    // strip digits so that IDs/lengths do not split signatures
    let t: String = s.chars().map(|c| if c.is_ascii_digit() { '#' } else { c }).collect();
    t.chars().take(n).collect()
}

/// C01: routing. Family MUX (fault-free, no timeouts).
pub fn check_c01(sc: &Scenario, rr: &RunResult) -> Vec<Violation> {
    let mut v = check_clean_run("C01", rr);
    let dead = dead_clients(&rr.hist);
    for m in walk_plain(sc, &rr.hist, &WalkOpts { strict_stream: false }) {
        if m.missing && (dead.contains(&m.client) || rr.verdict != crate::exec::Verdict::Done) {
            // already reported as panic / hang
            continue;
        }
        let (clause, sig) = if m.missing {
            ("C01.d", format!("no-return/{}", m.what))
        } else if m.foreign {
            ("C01.a", format!("foreign-content/{}", m.what))
        } else if m.what == "next" || m.what == "search" {
            ("C01.b", format!("wrong-sequence/{}", m.what))
        } else {
            ("C01.d", format!("wrong-value/{}", m.what))
        };
        v.push(Violation::new(
            "C01",
            clause,
            sig,
            format!("client {} step {}: expected {} got {}", m.client, m.step, clip(&m.expected), clip(&m.actual)),
        ));
    }
    v
}

pub fn clip(s: &str) -> String {
    if s.len() > 600 {
        let mut end = 600;
        while !s.is_char_boundary(end) {
            end -= 1;
        }
        format!("{}…", &s[..end])
    } else {
        s.to_string()
    }
}
