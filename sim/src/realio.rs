//! Real-transport lane (C04 / REALIO): C04's termination clauses on the transports that the simulator
//! replaces by its in-memory pipe - kernel TCP, Unix sockets (ldapi URL and pre-opened pair), TLS (ldaps)
//! and StartTLS through native-tls/OpenSSL. `ConnType`'s per-variant read/write/flush/shutdown dispatch,
//! mio and the TLS stream's shutdown run for real here; the peer is a scripted thread.
//!
//! No timer of the library is involved, so the runtime uses the real clock and every wait of the harness
//! is bounded by a real-time guard that only expires when something hangs (= a violation). Which case runs is
//! decided by the seed; thread and kernel timing inside a case are not controlled (weaker level, as for the
//! establishment lanes) - the observation recorded is restricted to what does not depend on it.

use crate::ber::{self, DecStats};
use crate::estab::pki;
use crate::msg;
use crate::runner::{RunCfg, RunResult};
use crate::scenario::Scenario;
use crate::world::{Ev, EvKind, Stats};
use serde::{Deserialize, Serialize};
use std::io::{Read, Write};
use std::net::{TcpListener, TcpStream};
use std::os::unix::net::{UnixListener, UnixStream};
use std::sync::{Arc, Mutex};
use std::time::{Duration, Instant};

const GUARD: Duration = Duration::from_secs(5);

#[derive(Clone, Copy, Debug, PartialEq, Serialize, Deserialize)]
pub enum Transport {
    Tcp,
    TcpPre,
    UnixUrl,
    UnixPair,
    Ldaps,
    StartTls,
    /// StartTLS over a TCP stream the caller opened itself
    StartTlsPre,
}

#[derive(Clone, Copy, Debug, PartialEq, Serialize, Deserialize)]
pub enum Ending {
    /// unbind() on one handle while a clone survives
    Unbind,
    /// every handle is dropped
    DropHandles,
    /// the peer closes after it has read `pending` requests it never answers
    PeerClose { pending: usize },
    /// the peer resets the connection (SO_LINGER 0) after reading `pending` unanswered requests (TCP-based only)
    PeerReset { pending: usize },
    /// the peer answers `pending` unanswered requests with an undecodable frame and keeps the connection open
    PeerGarbage { pending: usize },
    /// the peer closes right after the last warm-up reply, while nothing is pending
    PeerCloseIdle,
    /// the peer hangs up as soon as it has accepted the connection (TCP-based transports): establishment of a TLS
    /// or StartTLS connection must fail, not hang; a plain connection notices at its first operation at the latest
    PeerCloseAtAccept,
}

#[derive(Clone, Debug, PartialEq, Serialize, Deserialize)]
pub struct RealCase {
    pub transport: Transport,
    /// binds answered normally before the ending
    pub warmup: usize,
    pub ending: Ending,
    pub sync_api: bool,
}

#[derive(Clone, Debug, Default, PartialEq, Serialize, Deserialize)]
pub struct RealObs {
    /// the case, for the distinctness measure
    pub case: String,
    pub skipped: Option<String>,
    /// "ok" | "err" | "panic:.."
    pub establish: String,
    /// one per warm-up bind: "ok:<text>" | "err" | "hang"
    pub warm: Vec<String>,
    /// what the ending's own call returned: unbind() resp. each pending operation: "ok" / "ok:<text>" | "err" | "hang"
    pub calls: Vec<String>,
    /// drive(): "returned" | "hang" | "n/a" (sync API)
    pub drive: String,
    /// an operation started after the ending: "err" | "ok:<text>" | "hang" | "n/a"
    pub later: String,
    /// the peer saw the end of the client's stream (EOF, close_notify or a reset) within the guard: "yes" | "no" | "n/a"
    pub peer_saw_end: String,
    pub unbind_seen_by_peer: bool,
    pub notes: Vec<String>,
}

#[derive(Default)]
struct PeerLog {
    requests: usize,
    unbind_seen: bool,
    saw_end: bool,
    notes: Vec<String>,
}

fn bind_response(id: i64, text: &str) -> Vec<u8> {
    ber::encode(&msg::resp_tlv(&msg::Resp { id, op: msg::RespOp::Result { tag: 1, res: msg::ResultSpec::simple(0, text) }, ctrls: None }))
}

fn ext_response(id: i64, rc: u32) -> Vec<u8> {
    ber::encode(&msg::resp_tlv(&msg::Resp {
        id,
        op: msg::RespOp::Result { tag: 24, res: msg::ResultSpec { exop_name: Some(String::from_utf8_lossy(crate::estab::STARTTLS_OID).into_owned()), ..msg::ResultSpec::simple(rc, "starttls") } },
        ctrls: None,
    }))
}

/// What the peer does once the warm-up requests are answered.
#[derive(Clone, Copy, PartialEq)]
enum Then {
    ReadToEnd,
    CloseAfter(usize),
    GarbageAfter(usize),
    CloseNow,
}

/// LDAP-level script of the peer over any byte stream. Returns when the stream ended or the script says close.
fn ldap_peer<S: Read + Write>(s: &mut S, warm: usize, then: Then, log: &Arc<Mutex<PeerLog>>) {
    let mut inbuf: Vec<u8> = Vec::new();
    let mut tmp = [0u8; 4096];
    let mut seen = 0usize;
    if then == Then::CloseNow && warm == 0 {
        return;
    }
    loop {
        loop {
            let mut st = DecStats::default();
            match ber::decode(&inbuf, &mut st) {
                Ok((tlv, used)) => {
                    inbuf.drain(..used);
                    let mut strict = vec![];
                    let Some(req) = msg::decode_request(&tlv, &mut strict) else {
                        log.lock().unwrap().notes.push("undecodable-request".into());
                        continue;
                    };
                    if matches!(req.op, msg::ReqOp::Unbind) {
                        log.lock().unwrap().unbind_seen = true;
                        continue;
                    }
                    seen += 1;
                    log.lock().unwrap().requests = seen;
                    if seen <= warm {
                        let _ = s.write_all(&bind_response(req.id, &format!("R{seen}")));
                        let _ = s.flush();
                        if seen == warm && then == Then::CloseNow {
                            return;
                        }
                    } else {
                        match then {
                            Then::CloseAfter(k) if seen == warm + k => return,
                            Then::GarbageAfter(k) if seen == warm + k => {
                                let _ = s.write_all(&[0x30, 0x05, 0xff, 0xff, 0xff, 0x15, 0x03]);
                                let _ = s.flush();
                            }
                            _ => {}
                        }
                    }
                }
                Err(ber::BerErr::Short) => break,
                Err(_) => {
                    log.lock().unwrap().notes.push("garbage-from-client".into());
                    return;
                }
            }
        }
        match s.read(&mut tmp) {
            Ok(0) => {
                log.lock().unwrap().saw_end = true;
                return;
            }
            Ok(n) => inbuf.extend_from_slice(&tmp[..n]),
            Err(e) => {
                // a read timeout means the transport was still open after the guard; anything else is an end
                if matches!(e.kind(), std::io::ErrorKind::WouldBlock | std::io::ErrorKind::TimedOut) {
                    log.lock().unwrap().notes.push("peer-read-guard-expired".into());
                } else {
                    log.lock().unwrap().saw_end = true;
                }
                return;
            }
        }
    }
}

fn set_linger0(s: &TcpStream) {
    use std::os::unix::io::AsRawFd;
    let l = libc::linger { l_onoff: 1, l_linger: 0 };
    unsafe {
        libc::setsockopt(s.as_raw_fd(), libc::SOL_SOCKET, libc::SO_LINGER, &l as *const _ as *const libc::c_void, std::mem::size_of::<libc::linger>() as libc::socklen_t);
    }
}

fn serve_tcp_conn(mut s: TcpStream, transport: Transport, warm: usize, then: Then, reset: bool, log: Arc<Mutex<PeerLog>>) {
    let _ = s.set_nonblocking(false);
    let _ = s.set_read_timeout(Some(GUARD + Duration::from_secs(1)));
    let _ = s.set_write_timeout(Some(GUARD));
    if reset {
        set_linger0(&s);
    }
    match transport {
        Transport::Tcp | Transport::TcpPre => ldap_peer(&mut s, warm, then, &log),
        Transport::Ldaps | Transport::StartTls | Transport::StartTlsPre => {
            if matches!(transport, Transport::StartTls | Transport::StartTlsPre) {
                // one cleartext exchange first
                let mut buf = Vec::new();
                let mut tmp = [0u8; 4096];
                let id = loop {
                    let mut st = DecStats::default();
                    match ber::decode(&buf, &mut st) {
                        Ok((tlv, _)) => {
                            let mut strict = vec![];
                            break msg::decode_request(&tlv, &mut strict).map(|r| r.id).unwrap_or(1);
                        }
                        Err(ber::BerErr::Short) => {}
                        Err(_) => return,
                    }
                    match s.read(&mut tmp) {
                        Ok(0) | Err(_) => return,
                        Ok(n) => buf.extend_from_slice(&tmp[..n]),
                    }
                };
                let _ = s.write_all(&ext_response(id, 0));
            }
            let p = pki();
            let Ok(ident) = native_tls::Identity::from_pkcs8(&p.leaf_pem, &p.leaf_key_pem) else { return };
            let Ok(acc) = native_tls::TlsAcceptor::new(ident) else { return };
            match acc.accept(s) {
                Ok(mut t) => {
                    ldap_peer(&mut t, warm, then, &log);
                    if !reset && matches!(then, Then::CloseAfter(_) | Then::CloseNow) {
                        let _ = t.shutdown();
                    }
                }
                Err(e) => log.lock().unwrap().notes.push(format!("handshake-failed: {}", crate::oracle::trunc(&format!("{e}"), 50))),
            }
        }
        _ => {}
    }
}

fn err_or<T>(r: Result<Result<T, ldap3::LdapError>, tokio::time::error::Elapsed>, ok: impl Fn(T) -> String) -> String {
    match r {
        Err(_) => "hang".into(),
        Ok(Err(_)) => "err".into(),
        Ok(Ok(v)) => ok(v),
    }
}

pub fn run(sc: &Scenario, cfg: &RunCfg) -> RunResult {
    let case: RealCase = serde_json::from_str(&sc.note).expect("realio case");
    let obs = run_case(&case, cfg.tokio_seed);
    let mut hist = vec![];
    let js = serde_json::to_string(&obs).unwrap();
    hist.push(Ev { seq: 1, t_ms: 0, kind: EvKind::Note(format!("realio {js}")) });
    let mut stats = Stats::default();
    stats.bump(&format!("realio.transport.{:?}", case.transport));
    let ending = match case.ending {
        Ending::Unbind => "unbind",
        Ending::DropHandles => "drop-handles",
        Ending::PeerClose { .. } => "peer-close",
        Ending::PeerReset { .. } => "peer-reset",
        Ending::PeerGarbage { .. } => "peer-garbage",
        Ending::PeerCloseIdle => "peer-close-idle",
        Ending::PeerCloseAtAccept => "peer-close-at-accept",
    };
    stats.bump(&format!("realio.ending.{ending}"));
    stats.bump(if case.sync_api { "realio.api.sync" } else { "realio.api.async" });
    if obs.skipped.is_some() {
        stats.bump("estab.skipped");
    }
    let hist_hash = crate::world::history_hash(&hist);
    RunResult {
        verdict: crate::exec::Verdict::Done,
        hist,
        trace: vec![],
        stats,
        steps: 0,
        sched_hash: 0,
        hist_hash,
        end_ms: 0,
        c2s: vec![],
        s2c: vec![],
        requests: vec![],
        abs_states: Default::default(),
    }
}

pub fn run_case(case: &RealCase, tokio_seed: u64) -> RealObs {
    crate::exec::install_panic_hook();
    let mut obs = RealObs::default();
    let log = Arc::new(Mutex::new(PeerLog::default()));
    let dir = format!("/tmp/ldapsim-real-{}-{:?}", std::process::id(), std::thread::current().id()).replace(['(', ')'], "");
    let _ = std::fs::remove_dir_all(&dir);
    let _ = std::fs::create_dir_all(&dir);
    let (then, reset) = match case.ending {
        Ending::Unbind | Ending::DropHandles => (Then::ReadToEnd, false),
        Ending::PeerClose { pending } => (if pending == 0 { Then::CloseNow } else { Then::CloseAfter(pending) }, false),
        Ending::PeerReset { pending } => (if pending == 0 { Then::CloseNow } else { Then::CloseAfter(pending) }, true),
        Ending::PeerGarbage { pending } => (Then::GarbageAfter(pending.max(1)), false),
        Ending::PeerCloseIdle | Ending::PeerCloseAtAccept => (Then::CloseNow, false),
    };
    let at_accept = case.ending == Ending::PeerCloseAtAccept;
    let warm = if at_accept { 0 } else { case.warmup };
    let transport = case.transport;
    // --- peer ----------------------------------------------------------------------------------
    let mut settings = ldap3::LdapConnSettings::new();
    let url: String;
    let peer: std::thread::JoinHandle<()>;
    match transport {
        Transport::Tcp | Transport::TcpPre | Transport::Ldaps | Transport::StartTls | Transport::StartTlsPre => {
            let l = match TcpListener::bind("127.0.0.1:0") {
                Ok(l) => l,
                Err(e) => {
                    obs.skipped = Some(format!("bind: {e}"));
                    return obs;
                }
            };
            let port = l.local_addr().map(|a| a.port()).unwrap_or(0);
            let lg = log.clone();
            let pre = if matches!(transport, Transport::TcpPre | Transport::StartTlsPre) {
                match TcpStream::connect(("127.0.0.1", port)) {
                    Ok(s) => Some(s),
                    Err(e) => {
                        obs.skipped = Some(format!("pre-connect: {e}"));
                        return obs;
                    }
                }
            } else {
                None
            };
            peer = std::thread::spawn(move || {
                if let Ok((s, _)) = l.accept() {
                    if at_accept {
                        drop(s);
                        return;
                    }
                    serve_tcp_conn(s, transport, warm, then, reset, lg);
                }
            });
            match transport {
                Transport::Ldaps => {
                    url = format!("ldaps://localhost:{port}");
                }
                Transport::StartTls | Transport::StartTlsPre => {
                    url = format!("ldap://localhost:{port}");
                    settings = settings.set_starttls(true);
                }
                _ => url = format!("ldap://127.0.0.1:{port}"),
            }
            if matches!(transport, Transport::Ldaps | Transport::StartTls | Transport::StartTlsPre) {
                settings = crate::estab::trust_harness_ca(settings);
            }
            if let Some(s) = pre {
                settings = settings.set_std_stream(ldap3::StdStream::Tcp(s));
            }
        }
        Transport::UnixUrl => {
            let path = format!("{dir}/sock");
            let l = match UnixListener::bind(&path) {
                Ok(l) => l,
                Err(e) => {
                    obs.skipped = Some(format!("bind unix: {e}"));
                    return obs;
                }
            };
            let lg = log.clone();
            peer = std::thread::spawn(move || {
                if let Ok((mut s, _)) = l.accept() {
                    let _ = s.set_nonblocking(false);
                    let _ = s.set_read_timeout(Some(GUARD + Duration::from_secs(1)));
                    ldap_peer(&mut s, warm, then, &lg);
                }
            });
            url = format!("ldapi://{}", path.replace('/', "%2F"));
        }
        Transport::UnixPair => {
            let (a, mut b) = match UnixStream::pair() {
                Ok(p) => p,
                Err(e) => {
                    obs.skipped = Some(format!("socketpair: {e}"));
                    return obs;
                }
            };
            let lg = log.clone();
            peer = std::thread::spawn(move || {
                let _ = b.set_read_timeout(Some(GUARD + Duration::from_secs(1)));
                ldap_peer(&mut b, warm, then, &lg);
            });
            settings = settings.set_std_stream(ldap3::StdStream::Unix(a));
            url = "ldapi://%2Fnonexistent%2Fpre-opened".to_string();
        }
    }
    if at_accept {
        // let the hang-up arrive first (a pre-opened stream is then already at its end when the library gets it)
        std::thread::sleep(Duration::from_millis(20));
    }
    // --- client --------------------------------------------------------------------------------
    let ending = case.ending;
    let sync_api = case.sync_api;
    let log2 = log.clone();
    crate::exec::IN_SIM.with(|f| *f.borrow_mut() = true);
    let r = std::panic::catch_unwind(std::panic::AssertUnwindSafe(move || {
        let mut o = RealObs::default();
        let wait_end = |log: &Arc<Mutex<PeerLog>>| -> bool {
            let t0 = Instant::now();
            while t0.elapsed() < GUARD {
                if log.lock().unwrap().saw_end {
                    return true;
                }
                std::thread::sleep(Duration::from_millis(1));
            }
            false
        };
        if sync_api {
            let mut c = match ldap3::LdapConn::with_settings(settings, &url) {
                Ok(c) => c,
                Err(_) => {
                    o.establish = "err".into();
                    return o;
                }
            };
            o.establish = "ok".into();
            o.drive = "n/a".into();
            for _ in 0..warm {
                o.warm.push(match c.simple_bind("cn=w", "pw") {
                    Ok(r) => format!("ok:{}", r.text),
                    Err(_) => "err".into(),
                });
            }
            match ending {
                Ending::Unbind => {
                    o.calls.push(match c.unbind() {
                        Ok(()) => "ok".into(),
                        Err(_) => "err".into(),
                    });
                    // the connection object (and with it the runtime and the driver) is still alive here
                    o.peer_saw_end = if wait_end(&log2) { "yes" } else { "no" }.into();
                    o.later = match c.simple_bind("cn=later", "pw") {
                        Ok(r) => format!("ok:{}", r.text),
                        Err(_) => "err".into(),
                    };
                }
                Ending::DropHandles => {
                    drop(c);
                    o.peer_saw_end = if wait_end(&log2) { "yes" } else { "no" }.into();
                    o.later = "n/a".into();
                }
                Ending::PeerClose { pending } | Ending::PeerReset { pending } | Ending::PeerGarbage { pending } => {
                    for _ in 0..pending.max(1) {
                        o.calls.push(match c.simple_bind("cn=pending", "pw") {
                            Ok(r) => format!("ok:{}", r.text),
                            Err(_) => "err".into(),
                        });
                    }
                    o.later = match c.simple_bind("cn=later", "pw") {
                        Ok(r) => format!("ok:{}", r.text),
                        Err(_) => "err".into(),
                    };
                    o.peer_saw_end = "n/a".into();
                }
                Ending::PeerCloseIdle | Ending::PeerCloseAtAccept => {
                    // give the close time to arrive: the call after it must fail, not hang
                    std::thread::sleep(Duration::from_millis(20));
                    o.later = match c.simple_bind("cn=later", "pw") {
                        Ok(r) => format!("ok:{}", r.text),
                        Err(_) => "err".into(),
                    };
                    o.peer_saw_end = "n/a".into();
                }
            }
            return o;
        }
        let rt = tokio::runtime::Builder::new_current_thread().enable_all().rng_seed(tokio::runtime::RngSeed::from_bytes(&tokio_seed.to_le_bytes())).build().expect("runtime");
        rt.block_on(async move {
            if ending == Ending::PeerCloseAtAccept {
                // a busy runtime: the I/O driver gets its turn between the tasks, so the end of the stream is already
                // known when the connection driver polls the socket for the first time
                for _ in 0..200 {
                    tokio::spawn(async {
                        for _ in 0..50 {
                            tokio::task::yield_now().await;
                        }
                    });
                }
            }
            let (conn, mut ldap) = match tokio::time::timeout(GUARD, ldap3::LdapConnAsync::with_settings(settings, &url)).await {
                Ok(Ok(x)) => x,
                Ok(Err(_)) => {
                    o.establish = "err".into();
                    return o;
                }
                Err(_) => {
                    o.establish = "hang".into();
                    return o;
                }
            };
            o.establish = "ok".into();
            let mut drive = tokio::spawn(async move {
                let _ = conn.drive().await;
            });
            for _ in 0..warm {
                let r = tokio::time::timeout(GUARD, ldap.simple_bind("cn=w", "pw")).await;
                o.warm.push(err_or(r, |r| format!("ok:{}", r.text)));
            }
            let mut drive_done = false;
            match ending {
                Ending::Unbind => {
                    let mut other = ldap.clone();
                    let r = tokio::time::timeout(GUARD, ldap.unbind()).await;
                    o.calls.push(err_or(r, |_| "ok".into()));
                    // the peer must see the end of the stream while a handle (and possibly the driver) is still alive
                    let t0 = Instant::now();
                    let mut seen = false;
                    while t0.elapsed() < GUARD {
                        if log2.lock().unwrap().saw_end {
                            seen = true;
                            break;
                        }
                        tokio::time::sleep(Duration::from_millis(1)).await;
                    }
                    o.peer_saw_end = if seen { "yes" } else { "no" }.into();
                    let r = tokio::time::timeout(GUARD, other.simple_bind("cn=later", "pw")).await;
                    o.later = err_or(r, |r| format!("ok:{}", r.text));
                    drop(other);
                }
                Ending::DropHandles => {
                    drop(ldap);
                    drive_done = tokio::time::timeout(GUARD, &mut drive).await.is_ok();
                    let t0 = Instant::now();
                    let mut seen = false;
                    while t0.elapsed() < GUARD {
                        if log2.lock().unwrap().saw_end {
                            seen = true;
                            break;
                        }
                        tokio::time::sleep(Duration::from_millis(1)).await;
                    }
                    o.peer_saw_end = if seen { "yes" } else { "no" }.into();
                    o.later = "n/a".into();
                    o.drive = if drive_done { "returned" } else { "hang" }.into();
                    return o;
                }
                Ending::PeerClose { pending } | Ending::PeerReset { pending } | Ending::PeerGarbage { pending } => {
                    let n = if matches!(ending, Ending::PeerGarbage { .. }) { pending.max(1) } else { pending };
                    let mut futs = vec![];
                    for i in 0..n {
                        let mut l = ldap.clone();
                        futs.push(async move { tokio::time::timeout(GUARD, l.simple_bind(&format!("cn=pending{i}"), "pw")).await });
                    }
                    for r in futures_util::future::join_all(futs).await {
                        o.calls.push(err_or(r, |r| format!("ok:{}", r.text)));
                    }
                    drive_done = tokio::time::timeout(GUARD, &mut drive).await.is_ok();
                    let r = tokio::time::timeout(GUARD, ldap.simple_bind("cn=later", "pw")).await;
                    o.later = err_or(r, |r| format!("ok:{}", r.text));
                    o.peer_saw_end = "n/a".into();
                }
                Ending::PeerCloseIdle | Ending::PeerCloseAtAccept => {
                    drive_done = tokio::time::timeout(GUARD, &mut drive).await.is_ok();
                    let r = tokio::time::timeout(GUARD, ldap.simple_bind("cn=later", "pw")).await;
                    o.later = err_or(r, |r| format!("ok:{}", r.text));
                    o.peer_saw_end = "n/a".into();
                }
            }
            if !drive_done {
                drop(ldap);
                drive_done = tokio::time::timeout(GUARD, &mut drive).await.is_ok();
            }
            o.drive = if drive_done { "returned" } else { "hang" }.into();
            o
        })
    }));
    crate::exec::IN_SIM.with(|f| *f.borrow_mut() = false);
    match r {
        Ok(o) => obs = o,
        Err(_) => {
            let (msg, file) = crate::exec::LAST_PANIC.with(|p| p.borrow_mut().take()).unwrap_or_default();
            obs.establish = format!("panic:{} ({})", crate::oracle::trunc(&msg, 60), file.rsplit('/').next().unwrap_or(""));
        }
    }
    let _ = peer.join();
    obs.case = format!("{:?}", case);
    {
        let l = log.lock().unwrap();
        obs.unbind_seen_by_peer = l.unbind_seen;
        obs.notes = l.notes.clone();
    }
    let _ = std::fs::remove_dir_all(&dir);
    obs
}
