//! Deterministic PRNG (xoshiro256** seeded by splitmix64). No global state.

#[derive(Clone, Debug)]
pub struct Rng {
    s: [u64; 4],
}

pub fn splitmix(x: &mut u64) -> u64 {
    *x = x.wrapping_add(0x9E37_79B9_7F4A_7C15);
    let mut z = *x;
    z = (z ^ (z >> 30)).wrapping_mul(0xBF58_476D_1CE4_E5B9);
    z = (z ^ (z >> 27)).wrapping_mul(0x94D0_49BB_1331_11EB);
    z ^ (z >> 31)
}

/// Mix several integers into one seed.
pub fn mix(parts: &[u64]) -> u64 {
    let mut h: u64 = 0x243F_6A88_85A3_08D3;
    for &p in parts {
        h ^= p.wrapping_add(0x9E37_79B9_7F4A_7C15).wrapping_add(h << 6).wrapping_add(h >> 2);
        let mut t = h;
        h = splitmix(&mut t);
    }
    h
}

impl Rng {
    pub fn new(seed: u64) -> Rng {
        let mut x = seed;
        let s = [
            splitmix(&mut x),
            splitmix(&mut x),
            splitmix(&mut x),
            splitmix(&mut x),
        ];
        Rng { s }
    }

    pub fn next_u64(&mut self) -> u64 {
        let result = self.s[1].wrapping_mul(5).rotate_left(7).wrapping_mul(9);
        let t = self.s[1] << 17;
        self.s[2] ^= self.s[0];
        self.s[3] ^= self.s[1];
        self.s[1] ^= self.s[2];
        self.s[0] ^= self.s[3];
        self.s[2] ^= t;
        self.s[3] = self.s[3].rotate_left(45);
        result
    }

    /// Uniform in 0..n (n >= 1).
    pub fn below(&mut self, n: u64) -> u64 {
        if n <= 1 {
            return 0;
        }
        // multiply-shift; bias is irrelevant here
        ((self.next_u64() as u128 * n as u128) >> 64) as u64
    }

    pub fn range(&mut self, lo: u64, hi_incl: u64) -> u64 {
        lo + self.below(hi_incl - lo + 1)
    }

    pub fn usize(&mut self, n: usize) -> usize {
        self.below(n as u64) as usize
    }

    /// True with probability num/den.
    pub fn chance(&mut self, num: u64, den: u64) -> bool {
        self.below(den) < num
    }

    pub fn pick<'a, T>(&mut self, v: &'a [T]) -> &'a T {
        &v[self.usize(v.len())]
    }

    pub fn bytes(&mut self, n: usize) -> Vec<u8> {
        (0..n).map(|_| self.below(256) as u8).collect()
    }

    pub fn fork(&mut self) -> Rng {
        Rng::new(self.next_u64())
    }
}
