//! One run = one OS thread = one paused, seeded, current-thread tokio runtime without I/O driver.

use crate::client::{run_client, ClientOpts};
use crate::exec::{self, Exec, Kind, Verdict};
use crate::io::{self, Network, SimIo};
use crate::scenario::Scenario;
use crate::server::Server;
use crate::world::{self, Ev, EvKind, Sched, Stats, World};

pub struct RunResult {
    pub verdict: Verdict,
    pub hist: Vec<Ev>,
    pub trace: Vec<u32>,
    pub stats: Stats,
    pub steps: u64,
    pub sched_hash: u64,
    pub hist_hash: u64,
    pub end_ms: u64,
    pub c2s: Vec<u8>,
    pub s2c: Vec<u8>,
    pub requests: Vec<crate::msg::Req>,
    pub abs_states: std::collections::BTreeSet<u64>,
}

pub struct RunCfg {
    pub tokio_seed: u64,
    pub watchdog_ms: u64,
    pub step_cap: u64,
    pub alloc_snap: bool,
    pub next_after_end: bool,
    pub record_writes: bool,
    /// seed to continue with once an injected fault fired while replaying a trace
    pub diverge_seed: Option<u64>,
    /// run on a thread with this stack size (KiB) - tokio's default worker stack is 2 MiB
    pub stack_kib: Option<usize>,
}

impl Default for RunCfg {
    fn default() -> RunCfg {
        RunCfg { tokio_seed: 1, watchdog_ms: 3_600_000, step_cap: 200_000, alloc_snap: false, next_after_end: false, record_writes: false, diverge_seed: None, stack_kib: None }
    }
}

pub fn run(sc: &Scenario, sched: Sched, cfg: &RunCfg) -> RunResult {
    if let Some(kib) = cfg.stack_kib {
        let cfg2 = RunCfg { stack_kib: None, ..crate::batch::clone_cfg(cfg) };
        return std::thread::scope(|s| {
            std::thread::Builder::new()
                .stack_size(kib * 1024)
                .spawn_scoped(s, || run_here(sc, sched, &cfg2))
                .expect("spawn run thread")
                .join()
                .expect("run thread panicked")
        });
    }
    run_here(sc, sched, cfg)
}

fn run_here(sc: &Scenario, sched: Sched, cfg: &RunCfg) -> RunResult {
    exec::install_panic_hook();
    exec::IN_SIM.with(|f| *f.borrow_mut() = true);
    let rt = tokio::runtime::Builder::new_current_thread()
        .enable_time()
        .start_paused(true)
        .rng_seed(tokio::runtime::RngSeed::from_bytes(&cfg.tokio_seed.to_le_bytes()))
        .build()
        .expect("runtime");
    let (verdict, steps, sched_hash) = rt.block_on(async {
        let mut w = World::new(sched, sc.knobs.clone());
        w.record_writes = cfg.record_writes;
        w.diverge_seed = cfg.diverge_seed;
        world::install(w);
        io::apply_faults(&sc.faults);
        ldap3::verif::set_yield_decider(Some(Box::new(|| {
            world::try_with(|w| {
                if w.yield_ok && w.knobs.yield_pm > 0 && w.sched.permille(w.knobs.yield_pm) {
                    w.stats.bump("sched.yield_at_h3");
                    true
                } else {
                    false
                }
            })
            .unwrap_or(false)
        })));
        let (conn, ldap) = ldap3::LdapConnAsync::verif_from_io(Box::pin(SimIo));
        if let Some((last, in_use)) = &sc.id_table {
            ldap.verif_set_id_table(*last, in_use);
        }
        let mut ex = Exec::new(cfg.watchdog_ms, cfg.step_cap);
        ex.spawn(
            "driver",
            Kind::Driver,
            Box::pin(async move {
                let r = conn.drive().await;
                let (ok, err) = match &r {
                    Ok(()) => (true, String::new()),
                    Err(e) => (false, format!("{:?}", crate::client::err_c(e))),
                };
                world::ev(EvKind::DriverExit { ok, err });
            }),
        );
        ex.spawn(
            "server",
            Kind::Server,
            Box::pin(Server::new(sc.plan.clone(), sc.knobs.lenform_extra_max, sc.knobs.lenform_seed, sc.knobs.server_closes_on_unbind)),
        );
        ex.spawn("net", Kind::Net, Box::pin(Network::new()));
        for (i, c) in sc.clients.iter().enumerate() {
            let l = ldap.clone();
            ex.spawn(&format!("client{i}"), Kind::Client, Box::pin(run_client(i, c.clone(), l, ClientOpts { alloc_snap: cfg.alloc_snap, next_after_end: cfg.next_after_end })));
        }
        world::with(|w| w.observer = Some(ldap));
        let v = (&mut ex).await;
        let steps = ex.steps;
        let sh = ex.sched_hash();
        // tear down actors while the world still exists
        let obs = world::with(|w| w.observer.take());
        drop(obs);
        drop(ex);
        (v, steps, sh)
    });
    ldap3::verif::set_yield_decider(None);
    let w = world::take().expect("world");
    drop(rt);
    exec::IN_SIM.with(|f| *f.borrow_mut() = false);
    let end_ms = w.hist.last().map(|e| e.t_ms).unwrap_or(0);
    let hist_hash = world::history_hash(&w.hist);
    let mut stats = w.stats;
    stats.steps = steps;
    RunResult {
        verdict,
        hist: w.hist,
        trace: w.sched.trace,
        stats,
        steps,
        sched_hash,
        hist_hash,
        end_ms,
        c2s: w.pipe.c2s,
        s2c: w.pipe.s2c,
        requests: w.requests,
        abs_states: w.abs_states,
    }
}
