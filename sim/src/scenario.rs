//! A scenario is plain data: knobs, client scripts, the server plan and the fault plan.
//! It is generated from the run seed *before* the run, is serialisable, and together with
//! a decision trace it determines a run completely.

use crate::msg::{Bytes, Ctl, Filter, RespOp, ResultSpec};
use serde::{Deserialize, Serialize};
use std::collections::BTreeMap;

#[derive(Clone, Debug, PartialEq, Serialize, Deserialize)]
pub enum Chunking {
    /// everything that has been sent becomes readable at once
    Whole,
    OneByte,
    /// chunk sizes drawn in 1..=max
    Random { max: usize },
    /// explicit chunk sizes, then `Whole` for the rest
    Explicit(Vec<usize>),
    /// chunk boundaries at frame boundaries shifted by `shift` bytes (may be negative)
    FrameAligned { shift: i32 },
}

#[derive(Clone, Debug, PartialEq, Serialize, Deserialize)]
pub struct Knobs {
    pub chunking: Chunking,
    /// per-chunk network delay drawn in 0..=net_delay_max_ms
    pub net_delay_max_ms: u64,
    /// cap on bytes handed out by one poll_read; 0 = unlimited; usize::MAX-1 = draw per call
    pub max_read: usize,
    pub random_read_cap: bool,
    /// per mille: poll_read returns Pending although data is readable
    pub read_pending_pm: u32,
    /// write quota: 0 = accept everything, 1 = one byte, n = draw in 1..=n per call
    pub write_quota: usize,
    /// per mille: poll_write returns Pending (back-pressure)
    pub write_pending_pm: u32,
    /// per mille: executor polls an actor that was not woken
    pub spurious_pm: u32,
    /// per mille: yield between ID allocation and enqueue
    pub yield_pm: u32,
    /// server closes its side when it sees the client's shutdown / unbind
    pub server_closes_on_unbind: bool,
    /// every TLV of a response gets 0..=this extra length octets (drawn from the scenario seed)
    pub lenform_extra_max: usize,
    pub lenform_seed: u64,
    /// the peer stops reading: once this many request bytes were accepted, writes pend for this many ms
    #[serde(default)]
    pub write_stall: Option<(usize, u64)>,
}

impl Default for Knobs {
    fn default() -> Knobs {
        Knobs {
            chunking: Chunking::Whole,
            net_delay_max_ms: 0,
            max_read: 0,
            random_read_cap: false,
            read_pending_pm: 0,
            write_quota: 0,
            write_pending_pm: 0,
            spurious_pm: 0,
            yield_pm: 0,
            server_closes_on_unbind: true,
            lenform_extra_max: 0,
            lenform_seed: 0,
            write_stall: None,
        }
    }
}

#[derive(Clone, Debug, Default, PartialEq, Serialize, Deserialize)]
pub struct SearchOpts {
    pub deref: u8,
    pub typesonly: bool,
    pub timelimit: i32,
    pub sizelimit: i32,
}

/// One-shot modifiers applied to the handle right before an operation.
#[derive(Clone, Debug, Default, PartialEq, Serialize, Deserialize)]
pub struct Mods {
    pub controls: Option<Vec<Ctl>>,
    pub timeout_ms: Option<u64>,
    pub opts: Option<SearchOpts>,
}

#[derive(Clone, Debug, PartialEq, Serialize, Deserialize)]
pub struct SearchSpec {
    pub base: String,
    pub scope: u8,
    /// filter given to the API as this string
    pub filter_str: String,
    /// the syntax tree the string was rendered from (None = string is hand-written / invalid)
    pub filter: Option<Filter>,
    pub attrs: Vec<String>,
}

#[derive(Clone, Debug, PartialEq, Serialize, Deserialize)]
pub enum ModSpec {
    Add(Bytes, Vec<Bytes>),
    Delete(Bytes, Vec<Bytes>),
    Replace(Bytes, Vec<Bytes>),
    Increment(Bytes, Bytes),
}

/// Which earlier operation an abandon refers to.
#[derive(Clone, Debug, PartialEq, Serialize, Deserialize)]
pub enum IdRef {
    /// message ID of the operation with this token (looked up at run time from the client-side record)
    Token(String),
    Raw(i32),
}

#[derive(Clone, Debug, PartialEq, Serialize, Deserialize)]
pub enum OpSpec {
    SimpleBind { dn: String, pw: String },
    SaslExternal,
    Search(SearchSpec),
    Add { dn: String, attrs: Vec<(Bytes, Vec<Bytes>)> },
    Compare { dn: String, attr: String, val: Bytes },
    Delete { dn: String },
    Modify { dn: String, mods: Vec<ModSpec> },
    ModifyDn { dn: String, rdn: String, delete_old: bool, new_sup: Option<String> },
    Extended { oid: String, val: Option<Bytes> },
    Abandon(IdRef),
    Unbind,
}

#[derive(Clone, Copy, Debug, PartialEq, Eq, Serialize, Deserialize)]
pub enum Adapter {
    Direct,
    EntriesOnly,
    Paged(i32),
    /// chain [EntriesOnly, PagedResults]
    EntriesOnlyPaged(i32),
    /// chain [PagedResults, EntriesOnly]
    PagedEntriesOnly(i32),
    /// an adapter of the harness's own (the trait is public): hands `n` next() calls up the chain, then fails
    FailAfter(u32),
}

#[derive(Clone, Debug, PartialEq, Serialize, Deserialize)]
pub enum Step {
    /// A single call on the handle. `token` identifies the call in the history and the plan.
    Op {
        token: String,
        op: OpSpec,
        mods: Mods,
        /// drop the operation future after it returned Pending this many times
        cancel_after_polls: Option<u32>,
    },
    /// streaming_search / streaming_search_with into stream slot `slot`
    Open { token: String, slot: usize, search: SearchSpec, adapter: Adapter, mods: Mods },
    /// start a streaming search and drop the call after `polls` polls (no stream comes of it)
    OpenDropped { token: String, search: SearchSpec, polls: u32 },
    Next { slot: usize, cancel_after_polls: Option<u32> },
    Finish { slot: usize },
    State { slot: usize },
    DropStream { slot: usize },
    /// `stream.ldap_handle().abandon(stream.ldap_handle().last_id())` - abandon the search through its own handle
    StreamAbandon { slot: usize },
    /// drop this client's `Ldap` handle (streams keep theirs)
    DropHandle,
    /// wait until the whole system is quiescent; the executor snapshots the tables
    Barrier,
    Sleep { ms: u64 },
    /// set modifiers on the handle without running an operation (exercise "modifier then modifier")
    SetMods { mods: Mods },
    /// move the shared ID counter (H4) - models a long history of allocations
    SetIdCounter { last: i32 },
    /// move the shared ID counter to `back` below the wire ID of the operation `token`
    SetIdCounterBefore { token: String, back: i32 },
    /// query last_id()/is_closed() (recorded)
    Probe,
    /// ask the driver for the peer certificate (recorded as a class)
    ProbeCert,
}

#[derive(Clone, Debug, Default, PartialEq, Serialize, Deserialize)]
pub struct ClientScript {
    pub steps: Vec<Step>,
    /// virtual ms before the first step
    pub start_delay_ms: u64,
}

#[derive(Clone, Debug, PartialEq, Serialize, Deserialize)]
pub struct Extra {
    /// ms after the request arrived
    pub after_ms: u64,
    pub op: RespOp,
    pub ctrls: Option<Vec<Ctl>>,
}

#[derive(Clone, Debug, PartialEq, Serialize, Deserialize)]
pub struct ItemPlan {
    /// ms after the previous emission of this search (or after the request)
    pub gap_ms: u64,
    pub op: RespOp,
    pub ctrls: Option<Vec<Ctl>>,
}

#[derive(Clone, Debug, PartialEq, Serialize, Deserialize)]
pub struct DonePlan {
    pub gap_ms: u64,
    pub res: ResultSpec,
    pub ctrls: Option<Vec<Ctl>>,
}

#[derive(Clone, Debug, PartialEq, Serialize, Deserialize)]
pub enum ReplyPlan {
    /// one LDAPResult-shaped reply; the application tag follows the request kind
    Single { after_ms: u64, res: ResultSpec, ctrls: Option<Vec<Ctl>>, extra: Vec<Extra> },
    /// search: items, then optionally SearchResultDone
    Items { items: Vec<ItemPlan>, done: Option<DonePlan>, extra: Vec<Extra> },
    /// never answered
    Silent,
    /// answered by the paging model (C16)
    Paged,
}

#[derive(Clone, Debug, PartialEq, Serialize, Deserialize)]
pub enum UnsolId {
    Zero,
    Fixed(i64),
    /// the message ID the server saw for the request with this token (must have arrived)
    OfToken(String),
}

#[derive(Clone, Debug, PartialEq, Serialize, Deserialize)]
pub struct Unsol {
    /// sent at this virtual time (ms since run start), or as soon after as the ID is known
    pub at_ms: u64,
    pub id: UnsolId,
    pub op: RespOp,
    pub ctrls: Option<Vec<Ctl>>,
}

/// One hostile item spliced into the response stream at a frame boundary (C11).
#[derive(Clone, Debug, PartialEq, Serialize, Deserialize)]
pub struct Hostile {
    /// inserted right before the n-th planned emission (by emission sequence)
    pub before_emission: usize,
    pub class: String,
    pub bytes: Bytes,
    /// the connection must end because of this item
    pub must_end: bool,
    /// instead of `bytes`: an envelope for message `id` whose protocolOp (or controls) is nested this deep
    #[serde(default)]
    pub nest: Option<(u32, i64, bool)>,
    /// announced length of the outer element is larger than the item (the decoder may wait for more)
    #[serde(default)]
    pub outer_inflated: bool,
    /// everything the server sends after the item is held back this long (0 = follows at once)
    #[serde(default)]
    pub gap_after_ms: u64,
    /// identifier octet of the nested constructed elements of `nest` (0 = 0x30, SEQUENCE)
    #[serde(default)]
    pub nest_tag: u8,
}

#[derive(Clone, Debug, PartialEq, Serialize, Deserialize)]
pub struct PagingModel {
    /// total number of entries
    pub n: usize,
    /// how the server treats the requested size: 0 honour, k>0 cap at k
    pub cap: usize,
    pub cookie_seed: u64,
    pub empty_first_page: bool,
    pub supports_paging: bool,
    pub final_rc: u32,
    /// other response controls attached to every SearchResultDone
    pub other_ctrls: Vec<Ctl>,
    pub page_delay_ms: u64,
    /// sizes of the first pages of every search, overriding the requested size (0 = an empty page that still carries a cookie)
    #[serde(default)]
    pub page_sizes: Vec<usize>,
    /// after the last entry the server still hands out a cookie; the page after it is empty with an empty cookie
    #[serde(default)]
    pub extra_empty_last_page: bool,
    /// the server never answers the request for this page (0-based) of any search
    #[serde(default)]
    pub stall_at_page: Option<usize>,
    /// position of the paging control among the response controls (None = last)
    #[serde(default)]
    pub paged_ctrl_pos: Option<usize>,
    /// the server hands out the same (non-empty) cookie for every page of a search and keeps the position itself
    #[serde(default)]
    pub constant_cookie: bool,
}

#[derive(Clone, Debug, Default, PartialEq, Serialize, Deserialize)]
pub struct ServerPlan {
    pub by_token: BTreeMap<String, ReplyPlan>,
    /// plans by arrival order (used when requests carry no token); consulted when no token matches
    pub by_arrival: Vec<ReplyPlan>,
    pub unsolicited: Vec<Unsol>,
    pub hostile: Option<Hostile>,
    pub paging: Option<PagingModel>,
    /// the server closes the connection when the request with this arrival index arrives (before answering)
    #[serde(default)]
    pub close_on_arrival: Option<usize>,
    /// the server closes the connection when nothing has been emitted for this long after the last emission
    #[serde(default)]
    pub close_after_idle_ms: Option<u64>,
}

#[derive(Clone, Copy, Debug, PartialEq, Eq, Hash, PartialOrd, Ord, Serialize, Deserialize)]
pub enum IoKind {
    Reset,
    Aborted,
    TimedOut,
    BrokenPipe,
    Other,
}

#[derive(Clone, Debug, PartialEq, Serialize, Deserialize)]
pub enum Fault {
    /// F1: server->client stream ends cleanly after `at` bytes
    EofAt { at: usize },
    /// F2: read error after `at` bytes
    ReadErrAt { at: usize, kind: IoKind },
    /// F3: write error once `at` request bytes were accepted
    WriteErrAt { at: usize, kind: IoKind },
    /// F6: server closes the connection after reading `at` request bytes
    ServerCloseAfter { at: usize },
    /// F4: n-th flush fails
    FlushErr { nth: usize, kind: IoKind },
    /// F5: shutdown fails
    ShutdownErr { kind: IoKind },
}

#[derive(Clone, Debug, PartialEq, Serialize, Deserialize)]
pub struct Scenario {
    pub family: String,
    pub knobs: Knobs,
    pub clients: Vec<ClientScript>,
    pub plan: ServerPlan,
    pub faults: Vec<Fault>,
    /// pre-positioned ID table (H4): last, in-use phantoms
    pub id_table: Option<(i32, Vec<i32>)>,
    /// free-form note of the generator (which sub-shape)
    pub note: String,
}

impl Scenario {
    pub fn new(family: &str) -> Scenario {
        Scenario {
            family: family.to_string(),
            knobs: Knobs::default(),
            clients: vec![],
            plan: ServerPlan::default(),
            faults: vec![],
            id_table: None,
            note: String::new(),
        }
    }
}
