//! Scripted LDAP server (stub). Decodes requests with the harness's own strict decoder and
//! answers according to the scenario's server plan.

use crate::ber::{self, BerErr, DecStats};
use crate::msg::{self, Ctl, Req, ReqOp, Resp, RespOp, ResultSpec};
use crate::rng::Rng;
use crate::scenario::{PagingModel, ReplyPlan, ServerPlan, Unsol, UnsolId};
use crate::world::{self, EndKind, EvKind};
use std::cmp::Reverse;
use std::collections::{BTreeMap, BinaryHeap};
use std::future::Future;
use std::pin::Pin;
use std::task::{Context, Poll};

pub const PAGED_OID: &str = "1.2.840.113556.1.4.319";

#[derive(Clone, Debug)]
pub struct Emission {
    pub id: i64,
    pub op: RespOp,
    pub ctrls: Option<Vec<Ctl>>,
    pub label: String,
    /// raw bytes instead of an encoded message (hostile item)
    pub raw: Option<Vec<u8>>,
}

pub struct Server {
    plan: ServerPlan,
    lenrng: Rng,
    lenform_extra_max: usize,
    cursor: usize,
    arrival: usize,
    queue: BinaryHeap<Reverse<(u64, u64, usize)>>,
    emissions: Vec<Emission>,
    qseq: u64,
    emitted: usize,
    sleep: Pin<Box<tokio::time::Sleep>>,
    ids_by_token: BTreeMap<String, i64>,
    deferred_unsol: Vec<Unsol>,
    unsol_scheduled: bool,
    saw_shutdown: bool,
    saw_close: bool,
    stopped: bool,
    closes_on_unbind: bool,
    paging_pos: BTreeMap<Vec<u8>, usize>,
    paging_rng: Rng,
    last_emit_ms: u64,
    page_index: BTreeMap<String, usize>,
    hostile_spliced: bool,
    hold_until: u64,
}

pub fn request_token(op: &ReqOp) -> Option<String> {
    let b: &[u8] = match op {
        ReqOp::BindSimple { dn, .. } => dn,
        ReqOp::Search { base, .. } => base,
        ReqOp::Modify { dn, .. } => dn,
        ReqOp::Add { dn, .. } => dn,
        ReqOp::Del { dn } => dn,
        ReqOp::ModDn { dn, .. } => dn,
        ReqOp::Compare { dn, .. } => dn,
        ReqOp::Extended { val: Some(v), .. } => v,
        ReqOp::Extended { oid, val: None } => oid,
        _ => return None,
    };
    std::str::from_utf8(b).ok().map(|s| s.to_string())
}

impl Server {
    pub fn new(plan: ServerPlan, lenform_extra_max: usize, lenform_seed: u64, closes_on_unbind: bool) -> Server {
        let cookie_seed = plan.paging.as_ref().map(|p| p.cookie_seed).unwrap_or(0);
        Server {
            plan,
            lenrng: Rng::new(lenform_seed),
            lenform_extra_max,
            cursor: 0,
            arrival: 0,
            queue: BinaryHeap::new(),
            emissions: Vec::new(),
            qseq: 0,
            emitted: 0,
            sleep: Box::pin(tokio::time::sleep(std::time::Duration::from_secs(0))),
            ids_by_token: BTreeMap::new(),
            deferred_unsol: Vec::new(),
            unsol_scheduled: false,
            saw_shutdown: false,
            saw_close: false,
            stopped: false,
            closes_on_unbind,
            paging_pos: BTreeMap::new(),
            paging_rng: Rng::new(cookie_seed),
            last_emit_ms: 0,
            page_index: BTreeMap::new(),
            hostile_spliced: false,
            hold_until: 0,
        }
    }

    fn schedule(&mut self, at: u64, e: Emission) {
        let ix = self.emissions.len();
        self.emissions.push(e);
        self.qseq += 1;
        self.queue.push(Reverse((at, self.qseq, ix)));
        world::with(|w| w.srv_pending += 1);
    }

    fn schedule_unsol(&mut self, now: u64) {
        if self.unsol_scheduled {
            return;
        }
        self.unsol_scheduled = true;
        let unsol = std::mem::take(&mut self.plan.unsolicited);
        for (i, u) in unsol.into_iter().enumerate() {
            match &u.id {
                UnsolId::Zero => self.schedule(now + u.at_ms, Emission { id: 0, op: u.op, ctrls: u.ctrls, label: format!("unsol{i}"), raw: None }),
                UnsolId::Fixed(id) => {
                    let id = *id;
                    self.schedule(now + u.at_ms, Emission { id, op: u.op, ctrls: u.ctrls, label: format!("unsol{i}"), raw: None })
                }
                UnsolId::OfToken(_) => self.deferred_unsol.push(u),
            }
        }
    }

    fn stop(&mut self, reason: &str) {
        if self.stopped {
            return;
        }
        self.stopped = true;
        let n = self.queue.len();
        self.queue.clear();
        world::with(|w| {
            w.srv_pending -= n.min(w.srv_pending);
            let end = w.pipe.s2c.len();
            if w.pipe.s2c_end.is_none() {
                w.pipe.s2c_end = Some((end, EndKind::Eof));
            }
            w.pipe.server_closed = true;
            w.ev(EvKind::SrvClosed { at: end });
            w.stats.bump(&format!("srv.closed.{reason}"));
            if let Some(wk) = w.pipe.net_waker.take() {
                wk.wake();
            }
            if let Some(wk) = w.pipe.r_waker.take() {
                wk.wake();
            }
        });
    }

    fn page(&mut self, pm: &PagingModel, req: &Req, now: u64, token: &str) {
        // find the paging control of the request
        let (size, cookie) = req
            .ctrls
            .as_ref()
            .and_then(|cs| cs.iter().find(|c| c.oid == PAGED_OID.as_bytes()))
            .and_then(|c| c.val.as_ref())
            .and_then(|v| parse_paged_value(v))
            .unwrap_or((0, vec![]));
        let id = req.id;
        let pos = if cookie.is_empty() { 0 } else { self.paging_pos.get(&cookie).copied().unwrap_or(pm.n) };
        let first = cookie.is_empty();
        let page_ix = {
            let e = self.page_index.entry(token.to_string()).or_insert(0);
            if first {
                *e = 0;
            }
            let v = *e;
            *e += 1;
            v
        };
        if pm.stall_at_page == Some(page_ix) {
            world::ev(EvKind::Note(format!("page-stalled {token} {page_ix}")));
            return;
        }
        let mut take = if !pm.supports_paging || size <= 0 { pm.n - pos } else { (size as usize).min(pm.n - pos) };
        if pm.cap > 0 && pm.supports_paging {
            take = take.min(pm.cap);
        }
        if first && pm.empty_first_page && pm.supports_paging && pm.n > 0 {
            take = 0;
        }
        if pm.supports_paging {
            if let Some(sz) = pm.page_sizes.get(page_ix) {
                take = (*sz).min(pm.n - pos);
            }
        }
        let mut t = now;
        for k in pos..pos + take {
            t += pm.page_delay_ms;
            self.schedule(
                t,
                Emission {
                    id,
                    op: RespOp::Entry { dn: format!("cn=e{k},{token}"), attrs: vec![("cn".into(), vec![format!("e{k}").into_bytes()])] },
                    ctrls: None,
                    label: format!("{token}:page-entry{k}"),
                    raw: None,
                },
            );
        }
        let newpos = pos + take;
        let mut ctrls = pm.other_ctrls.clone();
        let more = newpos < pm.n || (pm.extra_empty_last_page && pm.supports_paging && take > 0 && newpos == pm.n);
        if pm.supports_paging {
            let ck = if more {
                if pm.constant_cookie {
                    // a slot handle: the same bytes on every page of this search
                    let c = format!("slot:{token}").into_bytes();
                    self.paging_pos.insert(c.clone(), newpos);
                    c
                } else {
                    let len = 1 + self.paging_rng.usize(64);
                    let mut c = self.paging_rng.bytes(len);
                    // make the cookie unique
                    c.extend_from_slice(format!("#{}", self.paging_pos.len()).as_bytes());
                    self.paging_pos.insert(c.clone(), newpos);
                    c
                }
            } else {
                vec![]
            };
            world::ev(EvKind::Note(format!("page-cookie {token} {}", hex(&ck))));
            let at = pm.paged_ctrl_pos.unwrap_or(usize::MAX).min(ctrls.len());
            ctrls.insert(at, Ctl { oid: PAGED_OID.as_bytes().to_vec(), crit: None, val: Some(encode_paged_value(0, &ck)) });
        } else {
            world::ev(EvKind::Note(format!("page-cookie {token} -")));
        }
        let last = !more || !pm.supports_paging;
        self.schedule(
            t + pm.page_delay_ms,
            Emission {
                id,
                op: RespOp::Result {
                    tag: 5,
                    res: ResultSpec::simple(if last { pm.final_rc } else { 0 }, &format!("{token}:page-done@{newpos}")),
                },
                ctrls: if ctrls.is_empty() { None } else { Some(ctrls) },
                label: format!("{token}:page-done@{newpos}"),
                raw: None,
            },
        );
    }

    fn handle(&mut self, req: Req, token: String, now: u64) {
        let id = req.id;
        self.ids_by_token.insert(token.clone(), id);
        // deferred unsolicited messages that refer to this request
        let mut keep = vec![];
        for (i, u) in std::mem::take(&mut self.deferred_unsol).into_iter().enumerate() {
            if matches!(&u.id, UnsolId::OfToken(t) if *t == token) {
                self.schedule(now + u.at_ms, Emission { id, op: u.op, ctrls: u.ctrls, label: format!("unsol-for-{token}-{i}"), raw: None });
            } else {
                keep.push(u);
            }
        }
        self.deferred_unsol = keep;
        if self.plan.close_on_arrival == Some(self.arrival - 1) {
            self.stop("planned-disconnect");
            return;
        }
        let tag = match req.op.resp_tag() {
            Some(t) => t,
            None => {
                if matches!(req.op, ReqOp::Unbind) && self.closes_on_unbind {
                    self.stop("unbind");
                }
                return;
            }
        };
        let plan = match self.plan.by_token.get(&token) {
            Some(p) => p.clone(),
            None => match self.plan.by_arrival.get(self.arrival - 1) {
                Some(p) => p.clone(),
                None => ReplyPlan::Single { after_ms: 0, res: ResultSpec::simple(0, &format!("auto:{token}")), ctrls: None, extra: vec![] },
            },
        };
        match plan {
            ReplyPlan::Silent => {}
            ReplyPlan::Single { after_ms, res, ctrls, extra } => {
                self.schedule(now + after_ms, Emission { id, op: RespOp::Result { tag, res }, ctrls, label: format!("{token}:reply"), raw: None });
                for (i, x) in extra.into_iter().enumerate() {
                    self.schedule(now + x.after_ms, Emission { id, op: x.op, ctrls: x.ctrls, label: format!("{token}:extra{i}"), raw: None });
                }
            }
            ReplyPlan::Items { items, done, extra } => {
                let mut t = now;
                for (i, it) in items.into_iter().enumerate() {
                    t += it.gap_ms;
                    self.schedule(t, Emission { id, op: it.op, ctrls: it.ctrls, label: format!("{token}:item{i}"), raw: None });
                }
                if let Some(d) = done {
                    t += d.gap_ms;
                    self.schedule(t, Emission { id, op: RespOp::Result { tag, res: d.res }, ctrls: d.ctrls, label: format!("{token}:done"), raw: None });
                }
                for (i, x) in extra.into_iter().enumerate() {
                    self.schedule(now + x.after_ms, Emission { id, op: x.op, ctrls: x.ctrls, label: format!("{token}:extra{i}"), raw: None });
                }
            }
            ReplyPlan::Paged => {
                if let Some(pm) = self.plan.paging.clone() {
                    self.page(&pm, &req, now, &token);
                }
            }
        }
    }

    fn emit(&mut self, ix: usize) {
        // hostile splice
        if let Some(h) = &self.plan.hostile {
            if h.before_emission == self.emitted && !self.hostile_spliced {
                self.hostile_spliced = true;
                let gap = h.gap_after_ms;
                let bytes = match h.nest {
                    Some((depth, id, in_controls)) => nested_frame(depth, id, in_controls, h.nest_tag),
                    None => h.bytes.clone(),
                };
                world::with(|w| {
                    let s = w.pipe.s2c.len();
                    w.pipe.s2c.extend_from_slice(&bytes);
                    let e = w.pipe.s2c.len();
                    w.pipe.s2c_frames.push(e);
                    w.ev(EvKind::SrvEmit { emission: usize::MAX, id: -1, label: "hostile".into(), range: (s, e) });
                    if let Some(wk) = w.pipe.net_waker.take() {
                        wk.wake();
                    }
                });
                if gap > 0 {
                    // everything else is held back: the item is the last thing on the wire for a while
                    let now = world::now_ms();
                    self.hold_until = now + gap;
                    self.last_emit_ms = now;
                    self.qseq += 1;
                    self.queue.push(Reverse((now, self.qseq, ix)));
                    return;
                }
            }
        }
        self.emitted += 1;
        self.last_emit_ms = world::now_ms();
        let e = self.emissions[ix].clone();
        let bytes = match e.raw {
            Some(b) => b,
            None => {
                let tlv = msg::resp_tlv(&Resp { id: e.id, op: e.op, ctrls: e.ctrls });
                if self.lenform_extra_max == 0 {
                    ber::encode(&tlv)
                } else {
                    let max = self.lenform_extra_max;
                    let rng = &mut self.lenrng;
                    let mut f = |_l: usize| rng.usize(max + 1);
                    ber::encode_with(&tlv, &mut f)
                }
            }
        };
        world::with(|w| {
            let s = w.pipe.s2c.len();
            w.pipe.s2c.extend_from_slice(&bytes);
            let end = w.pipe.s2c.len();
            w.pipe.s2c_frames.push(end);
            w.srv_pending -= 1;
            w.ev(EvKind::SrvEmit { emission: ix, id: e.id, label: e.label.clone(), range: (s, end) });
            if let Some(wk) = w.pipe.net_waker.take() {
                wk.wake();
            }
        });
    }
}

/// An LDAPMessage envelope for `id` whose protocolOp (application 1, or the controls element)
/// contains SEQUENCEs nested `depth` deep.
pub fn nested_frame(depth: u32, id: i64, in_controls: bool, nest_tag: u8) -> Vec<u8> {
    let nest_tag = if nest_tag == 0 { 0x30 } else { nest_tag };
    // sizes from the inside out, headers from the outside in (linear)
    let depth = depth.max(1) as usize;
    let mut sizes = vec![0usize; depth]; // sizes[k] = encoded size of the element at nesting level k
    sizes[depth - 1] = 2;
    for k in (0..depth - 1).rev() {
        let content = sizes[k + 1];
        let mut hdr = Vec::new();
        ber::write_len(&mut hdr, content, 0);
        sizes[k] = 1 + hdr.len() + content;
    }
    let mut inner: Vec<u8> = Vec::with_capacity(sizes[0]);
    for k in 0..depth - 1 {
        inner.push(nest_tag);
        ber::write_len(&mut inner, sizes[k + 1], 0);
    }
    inner.extend_from_slice(&[0x30, 0x00]);
    let idb = ber::encode(&ber::Tlv::int(id));
    let mut body = idb;
    if in_controls {
        // a plain success result, then controls [0] holding the nest
        body.extend(ber::encode(&msg::result_tlv(1, &ResultSpec::simple(0, "nested"))));
        body.push(0xA0);
        ber::write_len(&mut body, inner.len(), 0);
        body.extend_from_slice(&inner);
    } else {
        body.push(0x61);
        ber::write_len(&mut body, inner.len(), 0);
        body.extend_from_slice(&inner);
    }
    let mut out = vec![0x30];
    ber::write_len(&mut out, body.len(), 0);
    out.extend_from_slice(&body);
    out
}

pub fn hex(b: &[u8]) -> String {
    b.iter().map(|x| format!("{:02x}", x)).collect()
}

pub fn encode_paged_value(size: i64, cookie: &[u8]) -> Vec<u8> {
    ber::encode(&ber::Tlv::seq(vec![ber::Tlv::int(size), ber::Tlv::octets(cookie.to_vec())]))
}

pub fn parse_paged_value(v: &[u8]) -> Option<(i64, Vec<u8>)> {
    let (t, used) = ber::decode(v, &mut DecStats::default()).ok()?;
    if used != v.len() {
        return None;
    }
    let c = t.as_cons()?;
    if c.len() != 2 {
        return None;
    }
    Some((ber::int_value(c[0].as_prim()?)?, c[1].as_prim()?.to_vec()))
}

impl Future for Server {
    type Output = ();
    fn poll(mut self: Pin<&mut Self>, cx: &mut Context<'_>) -> Poll<()> {
        let this = &mut *self;
        loop {
            let now = world::now_ms();
            this.schedule_unsol(now);
            // 1. read requests
            if !this.stopped {
                loop {
                    let step = world::with(|w| {
                        let limit = match w.pipe.server_close_after {
                            Some(at) => at.min(w.pipe.c2s.len()),
                            None => w.pipe.c2s.len(),
                        };
                        let buf = &w.pipe.c2s[this.cursor..limit];
                        if buf.is_empty() {
                            return None;
                        }
                        let mut st = DecStats::default();
                        Some(match ber::decode(buf, &mut st) {
                            Ok((tlv, used)) => Ok((tlv, used, st)),
                            Err(e) => Err(e),
                        })
                    });
                    match step {
                        None | Some(Err(BerErr::Short)) => break,
                        Some(Err(e)) => {
                            world::ev(EvKind::SrvUndecodable { at: this.cursor, why: format!("{:?}", e) });
                            this.cursor = usize::MAX / 2;
                            this.stop("undecodable");
                            break;
                        }
                        Some(Ok((tlv, used, st))) => {
                            let range = (this.cursor, this.cursor + used);
                            this.cursor += used;
                            let mut strict = vec![];
                            if st.nonminimal_len > 0 {
                                strict.push(format!("{} length(s) not in minimal form", st.nonminimal_len));
                            }
                            match msg::decode_request(&tlv, &mut strict) {
                                Some(req) => {
                                    this.arrival += 1;
                                    // Families that key their plans by arrival ("#n") generate their arguments freely: a value
                                    // that happens to read like another call's key must not be taken for a token. So the
                                    // arrival key wins where the plan has one; otherwise the token the request carries.
                                    let arrival_key = format!("#{}", this.arrival - 1);
                                    let token = if this.plan.by_token.contains_key(&arrival_key) {
                                        arrival_key
                                    } else {
                                        request_token(&req.op).unwrap_or(arrival_key)
                                    };
                                    world::with(|w| {
                                        w.srv_ids_by_token.insert(token.clone(), req.id as i32);
                                        w.requests.push(req.clone());
                                        w.stats.bump(&format!("srv.req.{}", req.op.kind()));
                                        w.ev(EvKind::SrvRecv {
                                            arrival: this.arrival - 1,
                                            id: req.id,
                                            kind: req.op.kind().to_string(),
                                            token: token.clone(),
                                            strict,
                                            range,
                                        });
                                    });
                                    this.handle(req, token, now);
                                }
                                None => {
                                    world::ev(EvKind::SrvUndecodable { at: range.0, why: format!("not a request: {:?}", strict) });
                                }
                            }
                            if this.stopped {
                                break;
                            }
                        }
                    }
                }
            }
            // 2. observe shutdown / close of the client's side
            let (sd, dropped) = world::with(|w| (w.pipe.client_shutdown, w.pipe.client_dropped));
            if sd && !this.saw_shutdown {
                this.saw_shutdown = true;
                world::ev(EvKind::SrvSawShutdown);
                if this.closes_on_unbind {
                    this.stop("client-shutdown");
                }
            }
            if dropped && !this.saw_close {
                this.saw_close = true;
                world::ev(EvKind::SrvSawClose);
                this.stop("client-close");
            }
            // 3. emit what is due
            let mut next = None;
            while let Some(&Reverse((at, _, ix))) = this.queue.peek() {
                let at = at.max(this.hold_until);
                if at <= now {
                    this.queue.pop();
                    this.emit(ix);
                } else {
                    next = Some(at);
                    break;
                }
            }
            world::with(|w| w.pipe.c2s_waker = Some(cx.waker().clone()));
            // idle close
            if next.is_none() && !this.stopped && this.emitted > 0 {
                if let Some(idle) = this.plan.close_after_idle_ms {
                    let due = this.last_emit_ms + idle;
                    if now >= due {
                        this.stop("idle");
                        return Poll::Pending;
                    }
                    next = Some(due);
                }
            }
            match next {
                None => return Poll::Pending,
                Some(at) => {
                    let deadline = world::with(|w| w.start) + std::time::Duration::from_millis(at);
                    this.sleep.as_mut().reset(deadline);
                    match this.sleep.as_mut().poll(cx) {
                        Poll::Ready(()) => continue,
                        Poll::Pending => return Poll::Pending,
                    }
                }
            }
        }
    }
}
