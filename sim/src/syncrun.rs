//! C14: the same sequential script through the synchronous facade (`LdapConn` / `EntryStream`,
//! built with hook H5 on a paused-clock runtime that also runs the driver, the scripted server
//! and the network as tasks).

use crate::client::{self, err_c, item_c, res_c};
use crate::io::{self, Network, SimIo};
use crate::runner::{RunCfg, RunResult};
use crate::scenario::{Adapter, OpSpec, Scenario, Step};
use crate::server::Server;
use crate::world::{self, EvKind, Ret, Sched, World};
use ldap3::adapters::{Adapter as LAdapter, EntriesOnly, PagedResults};
use ldap3::exop::Exop;
use ldap3::{DerefAliases, LdapConn, SearchOptions};
use std::collections::HashSet;
use std::time::Duration;

fn apply_mods_sync(lc: &mut LdapConn, m: &crate::scenario::Mods) {
    if let Some(cs) = &m.controls {
        let v: Vec<ldap3::controls::RawControl> = cs
            .iter()
            .map(|c| ldap3::controls::RawControl { ctype: String::from_utf8_lossy(&c.oid).into_owned(), crit: c.crit.unwrap_or(false), val: c.val.clone() })
            .collect();
        lc.with_controls(v);
    }
    if let Some(t) = m.timeout_ms {
        lc.with_timeout(if t == u64::MAX { Duration::MAX } else { Duration::from_millis(t) });
    }
    if let Some(o) = &m.opts {
        let d = match o.deref {
            0 => DerefAliases::Never,
            1 => DerefAliases::Searching,
            2 => DerefAliases::Finding,
            _ => DerefAliases::Always,
        };
        lc.with_search_options(SearchOptions::new().deref(d).typesonly(o.typesonly).timelimit(o.timelimit).sizelimit(o.sizelimit));
    }
}

fn hs(v: &[Vec<u8>]) -> HashSet<Vec<u8>> {
    v.iter().cloned().collect()
}

fn run_op_sync(lc: &mut LdapConn, op: &OpSpec) -> Ret {
    use crate::scenario::ModSpec;
    match op {
        OpSpec::SimpleBind { dn, pw } => match lc.simple_bind(dn, pw) {
            Ok(r) => Ret::Res(res_c(&r)),
            Err(e) => Ret::Err(err_c(&e)),
        },
        OpSpec::SaslExternal => match lc.sasl_external_bind() {
            Ok(r) => Ret::Res(res_c(&r)),
            Err(e) => Ret::Err(err_c(&e)),
        },
        OpSpec::Search(s) => match lc.search(&s.base, client::scope_of(s.scope), &s.filter_str, s.attrs.clone()) {
            Ok(r) => Ret::Search { entries: r.0.iter().map(item_c).collect(), res: res_c(&r.1) },
            Err(e) => Ret::Err(err_c(&e)),
        },
        OpSpec::Add { dn, attrs } => {
            let a: Vec<(Vec<u8>, HashSet<Vec<u8>>)> = attrs.iter().map(|(n, v)| (n.clone(), hs(v))).collect();
            match lc.add(dn, a) {
                Ok(r) => Ret::Res(res_c(&r)),
                Err(e) => Ret::Err(err_c(&e)),
            }
        }
        OpSpec::Compare { dn, attr, val } => match lc.compare(dn, attr, val) {
            Ok(r) => Ret::Cmp(res_c(&r.0)),
            Err(e) => Ret::Err(err_c(&e)),
        },
        OpSpec::Delete { dn } => match lc.delete(dn) {
            Ok(r) => Ret::Res(res_c(&r)),
            Err(e) => Ret::Err(err_c(&e)),
        },
        OpSpec::Modify { dn, mods } => {
            let ms: Vec<ldap3::Mod<Vec<u8>>> = mods
                .iter()
                .map(|m| match m {
                    ModSpec::Add(a, v) => ldap3::Mod::Add(a.clone(), hs(v)),
                    ModSpec::Delete(a, v) => ldap3::Mod::Delete(a.clone(), hs(v)),
                    ModSpec::Replace(a, v) => ldap3::Mod::Replace(a.clone(), hs(v)),
                    ModSpec::Increment(a, v) => ldap3::Mod::Increment(a.clone(), v.clone()),
                })
                .collect();
            match lc.modify(dn, ms) {
                Ok(r) => Ret::Res(res_c(&r)),
                Err(e) => Ret::Err(err_c(&e)),
            }
        }
        OpSpec::ModifyDn { dn, rdn, delete_old, new_sup } => match lc.modifydn(dn, rdn, *delete_old, new_sup.as_deref()) {
            Ok(r) => Ret::Res(res_c(&r)),
            Err(e) => Ret::Err(err_c(&e)),
        },
        OpSpec::Extended { oid, val } => match lc.extended(Exop { name: Some(oid.clone()), val: val.clone() }) {
            Ok(r) => Ret::Exop { name: r.0.name.clone(), val: r.0.val.clone(), res: res_c(&r.1) },
            Err(e) => Ret::Err(err_c(&e)),
        },
        OpSpec::Abandon(r) => {
            let id = match r {
                crate::scenario::IdRef::Raw(i) => *i,
                crate::scenario::IdRef::Token(t) => world::with(|w| w.ids_by_token.get(t).or_else(|| w.srv_ids_by_token.get(t)).copied().unwrap_or(0)),
            };
            match lc.abandon(id) {
                Ok(()) => Ret::Unit,
                Err(e) => Ret::Err(err_c(&e)),
            }
        }
        OpSpec::Unbind => match lc.unbind() {
            Ok(()) => Ret::Unit,
            Err(e) => Ret::Err(err_c(&e)),
        },
    }
}

/// Run client 0 of the scenario through the synchronous API.
pub fn run_sync(sc: &Scenario, cfg: &RunCfg) -> RunResult {
    crate::exec::install_panic_hook();
    crate::exec::IN_SIM.with(|f| *f.borrow_mut() = true);
    let rt = tokio::runtime::Builder::new_current_thread()
        .enable_time()
        .start_paused(true)
        .rng_seed(tokio::runtime::RngSeed::from_bytes(&cfg.tokio_seed.to_le_bytes()))
        .build()
        .expect("runtime");
    let lc = {
        let _g = rt.enter();
        let w = World::new(Sched::from_seed(1), sc.knobs.clone());
        world::install(w);
        io::apply_faults(&sc.faults);
        let (conn, ldap) = ldap3::LdapConnAsync::verif_from_io(Box::pin(SimIo));
        if let Some((last, in_use)) = &sc.id_table {
            ldap.verif_set_id_table(*last, in_use);
        }
        rt.spawn(async move {
            let r = conn.drive().await;
            let (ok, err) = match &r {
                Ok(()) => (true, String::new()),
                Err(e) => (false, format!("{:?}", err_c(e))),
            };
            world::ev(EvKind::DriverExit { ok, err });
        });
        rt.spawn(Server::new(sc.plan.clone(), sc.knobs.lenform_extra_max, sc.knobs.lenform_seed, sc.knobs.server_closes_on_unbind));
        rt.spawn(Network::new());
        ldap
    };
    // stay inside the runtime's context so that the paused clock is the clock the harness reads
    let handle = rt.handle().clone();
    let _ctx = handle.enter();
    let mut lc = LdapConn::verif_from_parts(rt, lc);
    let script = sc.clients.first().cloned().unwrap_or_default();
    let client = 0usize;
    let r = std::panic::catch_unwind(std::panic::AssertUnwindSafe(|| {
        let steps = &script.steps;
        let mut ix = 0;
        while ix < steps.len() {
            match &steps[ix] {
                Step::Op { token, op, mods, .. } => {
                    apply_mods_sync(&mut lc, mods);
                    world::ev(EvKind::Invoke { client, step: ix, token: token.clone(), what: format!("{:?}", client::op_kind(op)) });
                    let ret = run_op_sync(&mut lc, op);
                    let last_id = if matches!(op, OpSpec::Search(_)) { 0 } else { lc.last_id() };
                    world::with(|w| {
                        if last_id != 0 {
                            w.ids_by_token.insert(token.clone(), last_id);
                        }
                        w.ev(EvKind::Return { client, step: ix, token: token.clone(), ret, last_id });
                    });
                    ix += 1;
                }
                Step::SetMods { mods } => {
                    apply_mods_sync(&mut lc, mods);
                    ix += 1;
                }
                Step::ProbeCert => {
                    let ret = Ret::Cert(match lc.get_peer_certificate() {
                        Ok(None) => "none".into(),
                        Ok(Some(_)) => "some".into(),
                        Err(_) => "err".into(),
                    });
                    world::ev(EvKind::Return { client, step: ix, token: "cert".into(), ret, last_id: 0 });
                    ix += 1;
                }
                Step::Probe => {
                    let ret = Ret::Probe { last_id: lc.last_id(), closed: lc.is_closed() };
                    world::ev(EvKind::Return { client, step: ix, token: "probe".into(), ret, last_id: 0 });
                    // exercise the remaining method of the surface
                    let cert = lc.get_peer_certificate();
                    world::ev(EvKind::Note(format!("peer certificate: {:?}", cert.map_err(|e| format!("{:?}", err_c(&e))))));
                    ix += 1;
                }
                Step::Sleep { ms } => {
                    // no sync counterpart needed: the facade has no sleeping; emulate with a timed no-op
                    let _ = ms;
                    ix += 1;
                }
                Step::Open { token, slot, search, adapter, mods } => {
                    apply_mods_sync(&mut lc, mods);
                    world::ev(EvKind::Invoke { client, step: ix, token: token.clone(), what: format!("open:{:?}", adapter) });
                    let sc_ = client::scope_of(search.scope);
                    let opened = match adapter {
                        Adapter::Direct => lc.streaming_search(&search.base, sc_, &search.filter_str, search.attrs.clone()),
                        Adapter::EntriesOnly => lc.streaming_search_with(EntriesOnly::new(), &search.base, sc_, &search.filter_str, search.attrs.clone()),
                        Adapter::Paged(n) => lc.streaming_search_with(PagedResults::<String, Vec<String>>::new(*n), &search.base, sc_, &search.filter_str, search.attrs.clone()),
                        Adapter::EntriesOnlyPaged(n) => {
                            let v: Vec<Box<dyn LAdapter<'static, String, Vec<String>>>> = vec![Box::new(EntriesOnly::new()), Box::new(PagedResults::new(*n))];
                            lc.streaming_search_with(v, &search.base, sc_, &search.filter_str, search.attrs.clone())
                        }
                        Adapter::PagedEntriesOnly(n) => {
                            let v: Vec<Box<dyn LAdapter<'static, String, Vec<String>>>> = vec![Box::new(PagedResults::new(*n)), Box::new(EntriesOnly::new())];
                            lc.streaming_search_with(v, &search.base, sc_, &search.filter_str, search.attrs.clone())
                        }
                        Adapter::FailAfter(n) => {
                            let v: Vec<Box<dyn LAdapter<'static, String, Vec<String>>>> = vec![Box::new(client::FailAfter { left: *n })];
                            lc.streaming_search_with(v, &search.base, sc_, &search.filter_str, search.attrs.clone())
                        }
                    };
                    match opened {
                        Err(e) => {
                            world::ev(EvKind::Return { client, step: ix, token: token.clone(), ret: Ret::Err(err_c(&e)), last_id: 0 });
                            ix += 1;
                        }
                        Ok(mut es) => {
                            let id = es.last_id();
                            world::with(|w| {
                                w.ids_by_token.insert(token.clone(), id);
                                w.ev(EvKind::Return { client, step: ix, token: token.clone(), ret: Ret::Opened, last_id: id });
                            });
                            ix += 1;
                            // the stream borrows the connection: consume the stream calls that follow
                            let mut ended = false;
                            let mut es = Some(es);
                            while ix < steps.len() {
                                match &steps[ix] {
                                    Step::Next { slot: s2, .. } if s2 == slot => {
                                        let tok = format!("next@{slot}");
                                        if ended {
                                            world::ev(EvKind::Return { client, step: ix, token: tok, ret: Ret::Skipped, last_id: 0 });
                                        } else if let Some(st) = es.as_mut() {
                                            world::ev(EvKind::Invoke { client, step: ix, token: tok.clone(), what: "next".into() });
                                            let ret = match st.next() {
                                                Ok(x) => Ret::Item(x.as_ref().map(item_c)),
                                                Err(e) => Ret::Err(err_c(&e)),
                                            };
                                            if matches!(ret, Ret::Item(None) | Ret::Err(_)) {
                                                ended = true;
                                            }
                                            let lid = st.last_id();
                                            world::ev(EvKind::Return { client, step: ix, token: tok, ret, last_id: lid });
                                        }
                                        ix += 1;
                                    }
                                    Step::Finish { slot: s2 } if s2 == slot => {
                                        let tok = format!("finish@{slot}");
                                        if let Some(st) = es.take() {
                                            world::ev(EvKind::Invoke { client, step: ix, token: tok.clone(), what: "finish".into() });
                                            let r = st.result();
                                            world::ev(EvKind::Return { client, step: ix, token: tok, ret: Ret::Fin(res_c(&r)), last_id: 0 });
                                        }
                                        ix += 1;
                                        break;
                                    }
                                    _ => break,
                                }
                            }
                            drop(es);
                        }
                    }
                }
                _ => ix += 1,
            }
        }
    }));
    if r.is_err() {
        let (msg, file) = crate::exec::LAST_PANIC.with(|p| p.borrow_mut().take()).unwrap_or_default();
        world::ev(EvKind::Panic { actor: "client0".into(), msg, file });
    }
    // let the driver finish: drop the facade (handle + runtime)
    drop(lc);
    ldap3::verif::set_yield_decider(None);
    let w = world::take().expect("world");
    crate::exec::IN_SIM.with(|f| *f.borrow_mut() = false);
    let end_ms = w.hist.last().map(|e| e.t_ms).unwrap_or(0);
    let hist_hash = world::history_hash(&w.hist);
    RunResult {
        verdict: crate::exec::Verdict::Done,
        hist: w.hist,
        trace: w.sched.trace,
        stats: w.stats,
        steps: 0,
        sched_hash: 0,
        hist_hash,
        end_ms,
        c2s: w.pipe.c2s,
        s2c: w.pipe.s2c,
        requests: w.requests,
        abs_states: w.abs_states,
    }
}
