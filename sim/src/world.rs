//! Per-run world state (thread-local): schedule source, history, byte pipes, statistics.

use crate::ber::Tlv;
use crate::msg::{Bytes, Req};
use crate::rng::Rng;
use crate::scenario::{IoKind, Knobs};
use serde::{Deserialize, Serialize};
use std::cell::RefCell;
use std::collections::BTreeMap;
use std::task::Waker;

// ------------------------------------------------------------------------------------------
// Schedule source
// ------------------------------------------------------------------------------------------

#[derive(Debug)]
pub struct Sched {
    rng: Rng,
    /// recorded decisions of this run
    pub trace: Vec<u32>,
    /// if set: decision i is replay[i] % n; past the end `fallback` applies
    replay: Option<Vec<u32>>,
    pos: usize,
    /// after the replayed prefix: continue with this PRNG (None = always 0)
    fallback: Option<Rng>,
    pub record: bool,
}

impl Sched {
    pub fn from_seed(seed: u64) -> Sched {
        Sched { rng: Rng::new(seed), trace: Vec::new(), replay: None, pos: 0, fallback: None, record: true }
    }
    pub fn from_trace(trace: Vec<u32>, fallback_seed: Option<u64>) -> Sched {
        Sched {
            rng: Rng::new(0),
            trace: Vec::new(),
            replay: Some(trace),
            pos: 0,
            fallback: fallback_seed.map(Rng::new),
            record: true,
        }
    }
    /// Abandon the replayed prefix now and continue from a PRNG (used when an injected fault fires).
    pub fn diverge(&mut self, seed: u64) {
        if self.replay.is_some() {
            self.replay = Some(Vec::new());
            self.pos = 0;
            self.fallback = Some(Rng::new(seed));
        }
    }
    /// One decision in 0..n.
    pub fn draw(&mut self, n: u32) -> u32 {
        let n = n.max(1);
        let v = match &self.replay {
            None => self.rng.below(n as u64) as u32,
            Some(t) => {
                if self.pos < t.len() {
                    let v = t[self.pos] % n;
                    self.pos += 1;
                    v
                } else {
                    match &mut self.fallback {
                        Some(r) => r.below(n as u64) as u32,
                        None => 0,
                    }
                }
            }
        };
        if self.record {
            self.trace.push(v);
        }
        v
    }
    pub fn permille(&mut self, pm: u32) -> bool {
        if pm == 0 {
            return false;
        }
        if pm >= 1000 {
            return true;
        }
        self.draw(1000) < pm
    }
}

// ------------------------------------------------------------------------------------------
// Canonical values returned to callers
// ------------------------------------------------------------------------------------------

#[derive(Clone, Debug, PartialEq, Eq, Hash, Serialize, Deserialize)]
pub struct CtlC {
    pub known: Option<String>,
    pub oid: String,
    pub crit: bool,
    pub val: Option<Bytes>,
}

#[derive(Clone, Debug, PartialEq, Eq, Hash, Serialize, Deserialize)]
pub struct ResC {
    pub rc: u32,
    pub matched: String,
    pub text: String,
    pub refs: Vec<String>,
    pub ctrls: Vec<CtlC>,
}

#[derive(Clone, Debug, PartialEq, Eq, Hash, Serialize, Deserialize)]
pub struct ItemC {
    pub tlv: Tlv,
    pub ctrls: Vec<CtlC>,
}

#[derive(Clone, Debug, PartialEq, Eq, Hash, Serialize, Deserialize)]
pub enum ErrC {
    Io(String),
    OpSend,
    ResultRecv,
    IdScrubSend,
    MiscSend,
    Timeout,
    FilterParsing,
    EndOfStream,
    AdapterInit(String),
    AddNoValues,
    LdapResult(ResC),
    Other(String),
}

#[derive(Clone, Debug, PartialEq, Eq, Hash, Serialize, Deserialize)]
pub enum Ret {
    Res(ResC),
    Exop { name: Option<String>, val: Option<Bytes>, res: ResC },
    Cmp(ResC),
    Search { entries: Vec<ItemC>, res: ResC },
    Unit,
    Opened,
    Item(Option<ItemC>),
    Fin(ResC),
    State(String),
    Probe { last_id: i32, closed: bool },
    /// outcome class of get_peer_certificate(): "none" | "some" | "err"
    Cert(String),
    Err(ErrC),
    Cancelled,
    /// the call panicked on the caller's stack
    Panicked(String),
    /// nothing to do (e.g. stream slot empty)
    Skipped,
}

impl Ret {
    pub fn is_err(&self) -> bool {
        matches!(self, Ret::Err(_))
    }
}

// ------------------------------------------------------------------------------------------
// History
// ------------------------------------------------------------------------------------------

#[derive(Clone, Debug, PartialEq, Eq, Hash, Serialize, Deserialize)]
pub enum EvKind {
    Invoke { client: usize, step: usize, token: String, what: String },
    /// message ID the client-side handle reports for the call (last_id() right after start)
    Return { client: usize, step: usize, token: String, ret: Ret, last_id: i32 },
    ClientDone { client: usize },
    /// outcome of the result helper methods on the returned value: success(), non_error(), equal()
    Helpers { client: usize, step: usize, rc: u32, success: bool, non_error: bool, equal: Option<Option<bool>> },
    SrvRecv { arrival: usize, id: i64, kind: String, token: String, strict: Vec<String>, range: (usize, usize) },
    SrvUndecodable { at: usize, why: String },
    SrvEmit { emission: usize, id: i64, label: String, range: (usize, usize) },
    SrvSawShutdown,
    SrvSawClose,
    SrvClosed { at: usize },
    NetDeliver { upto: usize },
    Fault { what: String, at: usize },
    ReadEnd { what: String, at: usize },
    Write { n: usize, total: usize },
    DriverExit { ok: bool, err: String },
    Panic { actor: String, msg: String, file: String },
    Snapshot { label: String, last: i32, in_use: Vec<i32>, resultmap: Vec<i32>, searchmap: Vec<i32> },
    AllocSnap { client: usize, step: usize, last: i32, in_use: Vec<i32> },
    TransportDropped,
    Hang,
    StepCap,
    Note(String),
}

#[derive(Clone, Debug, PartialEq, Eq, Hash, Serialize, Deserialize)]
pub struct Ev {
    pub seq: u64,
    pub t_ms: u64,
    pub kind: EvKind,
}

// ------------------------------------------------------------------------------------------
// Pipe (the only I/O the system under test sees)
// ------------------------------------------------------------------------------------------

#[derive(Clone, Copy, Debug, PartialEq, Eq)]
pub enum EndKind {
    Eof,
    Err(IoKind),
}

#[derive(Debug, Default)]
pub struct Pipe {
    // client -> server
    pub c2s: Vec<u8>,
    pub c2s_waker: Option<Waker>,
    pub w_fault: Option<(usize, IoKind)>,
    pub w_fault_fired: bool,
    pub flush_fault: Option<(usize, IoKind)>,
    pub flushes: usize,
    pub shutdown_fault: Option<IoKind>,
    pub client_shutdown: bool,
    pub client_dropped: bool,
    pub server_close_after: Option<usize>,
    /// server closed its side: writes fail with EPIPE
    pub server_closed: bool,
    // server -> client
    pub s2c: Vec<u8>,
    /// frame boundaries (end offsets) of emissions in s2c
    pub s2c_frames: Vec<usize>,
    pub delivered: usize,
    pub read_pos: usize,
    pub s2c_end: Option<(usize, EndKind)>,
    pub end_seen: bool,
    pub cut_noted: bool,
    pub write_after_close_noted: bool,
    pub stall_until: Option<u64>,
    pub w_waker: Option<Waker>,
    pub r_waker: Option<Waker>,
    pub net_waker: Option<Waker>,
    /// offset up to which the network already planned deliveries
    pub net_planned: usize,
    pub net_queue: std::collections::VecDeque<(u64, usize)>,
}

// ------------------------------------------------------------------------------------------
// Statistics / probes
// ------------------------------------------------------------------------------------------

#[derive(Clone, Debug, Default, Serialize, Deserialize)]
pub struct Stats {
    pub steps: u64,
    pub counters: BTreeMap<String, u64>,
}

impl Stats {
    pub fn bump(&mut self, k: &str) {
        *self.counters.entry(k.to_string()).or_insert(0) += 1;
    }
    pub fn add(&mut self, k: &str, n: u64) {
        *self.counters.entry(k.to_string()).or_insert(0) += n;
    }
    pub fn merge(&mut self, o: &Stats) {
        self.steps += o.steps;
        for (k, v) in &o.counters {
            *self.counters.entry(k.clone()).or_insert(0) += v;
        }
    }
}

// ------------------------------------------------------------------------------------------
// World
// ------------------------------------------------------------------------------------------

pub struct World {
    pub sched: Sched,
    pub knobs: Knobs,
    pub hist: Vec<Ev>,
    pub seq: u64,
    pub start: tokio::time::Instant,
    pub pipe: Pipe,
    pub stats: Stats,
    /// requests as decoded by the server, by arrival
    pub requests: Vec<Req>,
    /// number of server emissions still scheduled for the future
    pub srv_pending: usize,
    /// clients parked at a barrier
    pub barrier_waiting: BTreeMap<usize, Waker>,
    pub barrier_gen: u64,
    /// may the operation currently being polled yield at the H3 point?
    pub yield_ok: bool,
    /// seed used to continue the schedule once a fault fired in a replayed sweep run
    pub diverge_seed: Option<u64>,
    /// message IDs by token as reported by the client side (last_id after the call started)
    pub ids_by_token: BTreeMap<String, i32>,
    /// message IDs by token as seen by the server
    pub srv_ids_by_token: BTreeMap<String, i32>,
    /// abstract-state fingerprints visited (for evidence)
    pub abs_states: std::collections::BTreeSet<u64>,
    pub record_writes: bool,
    /// extra handle kept by the harness for table snapshots; dropped after the last client
    pub observer: Option<ldap3::Ldap>,
}

thread_local! {
    static WORLD: RefCell<Option<World>> = const { RefCell::new(None) };
}

pub fn install(w: World) {
    WORLD.with(|c| *c.borrow_mut() = Some(w));
}

pub fn take() -> Option<World> {
    WORLD.with(|c| c.borrow_mut().take())
}

pub fn with<R>(f: impl FnOnce(&mut World) -> R) -> R {
    WORLD.with(|c| {
        let mut b = c.borrow_mut();
        f(b.as_mut().expect("no world installed on this thread"))
    })
}

pub fn try_with<R>(f: impl FnOnce(&mut World) -> R) -> Option<R> {
    WORLD.with(|c| match c.try_borrow_mut() {
        Ok(mut b) => b.as_mut().map(f),
        Err(_) => None,
    })
}

impl World {
    pub fn new(sched: Sched, knobs: Knobs) -> World {
        World {
            sched,
            knobs,
            hist: Vec::with_capacity(128),
            seq: 0,
            start: tokio::time::Instant::now(),
            pipe: Pipe::default(),
            stats: Stats::default(),
            requests: Vec::new(),
            srv_pending: 0,
            barrier_waiting: BTreeMap::new(),
            barrier_gen: 0,
            yield_ok: false,
            diverge_seed: None,
            ids_by_token: BTreeMap::new(),
            srv_ids_by_token: BTreeMap::new(),
            abs_states: Default::default(),
            record_writes: false,
            observer: None,
        }
    }
    pub fn now_ms(&self) -> u64 {
        (tokio::time::Instant::now() - self.start).as_millis() as u64
    }
    pub fn ev(&mut self, kind: EvKind) {
        let t_ms = self.now_ms();
        self.seq += 1;
        self.hist.push(Ev { seq: self.seq, t_ms, kind });
    }
    /// a fault fired: if this run replays a reference trace, leave it now
    pub fn fault_fired(&mut self, what: &str, at: usize) {
        self.stats.bump(&format!("fault.{what}"));
        self.ev(EvKind::Fault { what: what.to_string(), at });
        if let Some(s) = self.diverge_seed.take() {
            self.sched.diverge(s);
        }
    }
}

pub fn ev(kind: EvKind) {
    with(|w| w.ev(kind));
}

pub fn now_ms() -> u64 {
    with(|w| w.now_ms())
}

/// 64-bit FNV-1a over the Debug rendering of the history (the determinism witness).
pub fn history_hash(hist: &[Ev]) -> u64 {
    use std::fmt::Write;
    struct H(u64);
    impl Write for H {
        fn write_str(&mut self, s: &str) -> std::fmt::Result {
            for b in s.bytes() {
                self.0 ^= b as u64;
                self.0 = self.0.wrapping_mul(0x100_0000_01b3);
            }
            Ok(())
        }
    }
    let mut h = H(0xcbf2_9ce4_8422_2325);
    for e in hist {
        let _ = write!(h, "{:?}", e);
    }
    h.0
}
