//! Thread-level deterministic simulation of the message ID allocator (property C05).
//!
//! The simulator in /verif/sim is single-threaded: it cannot interleave two handles *inside*
//! `Ldap::next_msgid()`. Here the ID table's mutex is shuttle's (hook H6), several shuttle
//! threads allocate IDs through cloned handles, and shuttle's seeded schedulers decide every
//! interleaving at the lock operations. Failing schedules are persisted and replay exactly.

use ldap3::{Ldap, LdapConnAsync};
use shuttle::scheduler::{PctScheduler, RandomScheduler};
use shuttle::{Config, FailurePersistence, Runner};
use std::collections::BTreeSet;
use std::pin::Pin;
use std::sync::atomic::{AtomicU64, Ordering};
use std::task::{Context, Poll};
use tokio::io::{AsyncRead, AsyncWrite, ReadBuf};

#[derive(Debug)]
struct NullIo;
impl AsyncRead for NullIo {
    fn poll_read(self: Pin<&mut Self>, _: &mut Context<'_>, _: &mut ReadBuf<'_>) -> Poll<std::io::Result<()>> {
        Poll::Pending
    }
}
impl AsyncWrite for NullIo {
    fn poll_write(self: Pin<&mut Self>, _: &mut Context<'_>, b: &[u8]) -> Poll<std::io::Result<usize>> {
        Poll::Ready(Ok(b.len()))
    }
    fn poll_flush(self: Pin<&mut Self>, _: &mut Context<'_>) -> Poll<std::io::Result<()>> {
        Poll::Ready(Ok(()))
    }
    fn poll_shutdown(self: Pin<&mut Self>, _: &mut Context<'_>) -> Poll<std::io::Result<()>> {
        Poll::Ready(Ok(()))
    }
}

static EXECUTIONS: AtomicU64 = AtomicU64::new(0);
static WRAPS: AtomicU64 = AtomicU64::new(0);
static SKIPS: AtomicU64 = AtomicU64::new(0);

const MAX: i32 = 2147483647;

fn scenario() {
    use shuttle::rand::Rng;
    let mut rng = shuttle::rand::thread_rng();
    EXECUTIONS.fetch_add(1, Ordering::Relaxed);
    let (conn, ldap) = LdapConnAsync::verif_from_io(Box::pin(NullIo));
    // counter position: mostly just below the upper end, so that the run wraps around
    let last: i32 = match rng.gen_range(0..4u32) {
        0 => rng.gen_range(0..1000),
        _ => MAX - rng.gen_range(0..6),
    };
    let mut phantoms: BTreeSet<i32> = BTreeSet::new();
    for _ in 0..rng.gen_range(0..6u32) {
        phantoms.insert(match rng.gen_range(0..3u32) {
            0 => rng.gen_range(1..8),
            1 => MAX - rng.gen_range(0..4),
            _ => (last as i64 + rng.gen_range(1..4) as i64).min(MAX as i64) as i32,
        });
    }
    let pv: Vec<i32> = phantoms.iter().copied().collect();
    ldap.verif_set_id_table(last, &pv);
    let nthreads = rng.gen_range(2..5usize);
    let per = rng.gen_range(1..4usize);
    let got = shuttle::sync::Arc::new(shuttle::sync::Mutex::new(Vec::<i32>::new()));
    let mut hs = vec![];
    for _ in 0..nthreads {
        let mut l: Ldap = ldap.clone();
        let got = got.clone();
        hs.push(shuttle::thread::spawn(move || {
            for _ in 0..per {
                let id = l.verif_next_msgid();
                got.lock().unwrap().push(id);
            }
        }));
    }
    for h in hs {
        h.join().unwrap();
    }
    let ids = got.lock().unwrap().clone();
    let mut seen = BTreeSet::new();
    for id in &ids {
        assert!((1..=MAX).contains(id), "C05.range: allocated message ID {id} is outside 1..=2147483647");
        assert!(!phantoms.contains(id), "C05.inuse: allocated message ID {id} was in use (pre-seeded)");
        assert!(seen.insert(*id), "C05.distinct: message ID {id} was handed to two operations that are both outstanding (ids {:?})", ids);
    }
    let (_, in_use) = ldap.verif_id_table();
    for id in &ids {
        assert!(in_use.contains(id), "C05.insert: allocated message ID {id} is not recorded as in use");
    }
    if ids.iter().any(|i| *i < 1000) && last > 1000 {
        WRAPS.fetch_add(1, Ordering::Relaxed);
    }
    if !phantoms.is_empty() {
        SKIPS.fetch_add(1, Ordering::Relaxed);
    }
    drop(conn);
}

fn arg(args: &[String], name: &str) -> Option<String> {
    args.iter().position(|a| a == name).and_then(|i| args.get(i + 1).cloned())
}

fn main() {
    let args: Vec<String> = std::env::args().collect();
    if args.get(1).map(|s| s.as_str()) == Some("replay") {
        let path = args.get(2).expect("schedule file");
        // only a failed C05 assertion counts; a schedule that does not fit this build is not a violation
        static HIT: std::sync::atomic::AtomicBool = std::sync::atomic::AtomicBool::new(false);
        let default = std::panic::take_hook();
        std::panic::set_hook(Box::new(move |info| {
            let msg = info.payload().downcast_ref::<String>().cloned().or_else(|| info.payload().downcast_ref::<&str>().map(|s| s.to_string())).unwrap_or_default();
            if msg.contains("C05.") {
                HIT.store(true, Ordering::SeqCst);
                eprintln!("{msg}");
            } else {
                default(info);
            }
        }));
        let r = std::panic::catch_unwind(|| shuttle::replay_from_file(scenario, path));
        if r.is_err() && HIT.load(Ordering::SeqCst) {
            println!("VIOLATION property=C05 replay={path}");
            std::process::exit(1)
        }
        println!("not reproduced{}", if r.is_err() { " (the schedule does not fit this build)" } else { "" });
        std::process::exit(0)
    }
    let tier = arg(&args, "--tier").unwrap_or_else(|| "quick".into());
    let seed: u64 = arg(&args, "--seed").and_then(|s| s.parse().ok()).or_else(|| std::env::var("VERIF_SEED").ok().and_then(|s| s.trim().parse().ok())).unwrap_or(20_260_101);
    let out = arg(&args, "--out").unwrap_or_else(|| "/verif/evidence/C05.threads.json".into());
    let replay_dir = std::env::var("VERIF_REPLAY_DIR").unwrap_or_else(|_| "/verif/replays".into());
    let _ = std::fs::create_dir_all(&replay_dir);
    let iters: usize = if tier == "thorough" { 600_000 } else { 40_000 };
    let t0 = std::time::Instant::now();
    let mut failed: Option<String> = None;
    let mut per_sched = vec![];
    for (name, which) in [("random", 0), ("pct-depth-3", 1)] {
        let mut cfg = Config::new();
        cfg.failure_persistence = FailurePersistence::File(Some(std::path::PathBuf::from(&replay_dir)));
        let before = EXECUTIONS.load(Ordering::Relaxed);
        let r = std::panic::catch_unwind(|| {
            if which == 0 {
                Runner::new(RandomScheduler::new_from_seed(seed, iters), cfg).run(scenario);
            } else {
                let mut s = PctScheduler::new_from_seed(seed ^ 0x9e37, 3, iters);
                let _ = &mut s;
                Runner::new(s, cfg).run(scenario);
            }
        });
        per_sched.push((name, EXECUTIONS.load(Ordering::Relaxed) - before));
        if r.is_err() {
            // newest schedule file in the replay directory
            let mut newest: Option<(std::time::SystemTime, std::path::PathBuf)> = None;
            if let Ok(rd) = std::fs::read_dir(&replay_dir) {
                for e in rd.flatten() {
                    let p = e.path();
                    if p.file_name().and_then(|n| n.to_str()).map_or(false, |n| n.starts_with("schedule")) {
                        if let Ok(m) = e.metadata().and_then(|m| m.modified()) {
                            if newest.as_ref().map_or(true, |(t, _)| m > *t) {
                                newest = Some((m, p));
                            }
                        }
                    }
                }
            }
            let target = format!("{replay_dir}/C05-threads-{seed}-{name}.schedule");
            if let Some((_, p)) = newest {
                let _ = std::fs::rename(&p, &target);
            }
            failed = Some(target);
            break;
        }
    }
    let wall = t0.elapsed().as_secs_f64();
    let ev = serde_json::json!({
        "engine": "shuttle 0.9.3 (seeded random and PCT schedulers over std-style threads and the ID table mutex)",
        "tier": tier,
        "seed": seed,
        "executions": EXECUTIONS.load(Ordering::Relaxed),
        "per_scheduler": per_sched.iter().map(|(n, c)| serde_json::json!({"scheduler": n, "executions": c})).collect::<Vec<_>>(),
        "executions_that_wrapped_around": WRAPS.load(Ordering::Relaxed),
        "executions_with_pre_seeded_ids": SKIPS.load(Ordering::Relaxed),
        "threads_per_execution": "2-4, 1-3 allocations each",
        "wall_s": wall,
        "violation": failed,
        "real": ["Ldap::next_msgid and the shared ID table (through hook H6 the table's mutex is the scheduler's)"],
        "stub": ["transport (never read)", "no driver is running: allocations only"],
    });
    let _ = std::fs::write(&out, serde_json::to_string_pretty(&ev).unwrap());
    println!("threads lane: executions={} wall_s={:.1} violation={:?}", EXECUTIONS.load(Ordering::Relaxed), wall, failed);
    if let Some(f) = failed {
        println!("VIOLATION property=C05 replay={f}");
        std::process::exit(1);
    }
}
