#!/bin/bash
# validate MANIFEST.json and all evidence files against the schemas
python3-vt - <<'PY'
import json,jsonschema,glob,sys
ok=True
try:
    jsonschema.validate(json.load(open('/verif/MANIFEST.json')),json.load(open('/root/.vp/MANIFEST.schema.json')))
    print('MANIFEST ok')
except Exception as e:
    ok=False; print('MANIFEST INVALID',str(e)[:300])
es=json.load(open('/root/.vp/EVIDENCE.schema.json'))
for f in sorted(glob.glob('/verif/evidence/*.json')):
    try:
        jsonschema.validate(json.load(open(f)),es); print(f,'ok')
    except Exception as e:
        ok=False; print(f,'INVALID',str(e)[:300])
sys.exit(0 if ok else 1)
PY
